# Edited as checks come on line; every property is either claimed or listed n/a.
claim("C17",
      "For every byte string of length <= 2 (quick) / <= 3 (thorough) the solver shows, on every path of the real Bquote/Bunquote (strconv.Quote, UnquoteChar, utf8 included), that unquote(quote(b)) == b and the quoted form has no ',' ':' or newline. Bounded, not a proof: longer strings are outside the claim.",
      "Trusts the gosym executor's Go semantics and the SMT solvers; strings longer than the bound are not covered.",
      "DESIGN.md 4/C17")
claim("C16",
      "The real cdb writer (Put/Close) and reader (find/FindNext/readNums/match) plus Dump/Make run symbolically on n <= 3 (quick) / 4 (thorough) records with symbolic key/value bytes; the hash is an oracle returning a fresh symbolic 32-bit value per distinct key, so the solver chooses table, slot and full-hash collisions and probe wrap-around. Every look-up returns exactly the written values of that key in insertion order, then EOF; dump+make reproduces the file bytes.",
      "Hash function replaced by an oracle (equal content => equal hash) with the table number confined to a stated small set per shape; spooky.New(0,0).Sum32 == spooky.Hash32 is assumed; files beyond a few records / bufio 4096-byte boundary are outside.",
      "DESIGN.md 4/C16")
claim("C15",
      "One step from an arbitrary valid pre-state (two distinct symbolic keys, value lists with symbolic lengths/bytes) through the real RDB.Add, Del, CreateBatch/Add/Del/ExecuteBatch, read back with the real Find/ForEach and raw: the store equals the map-of-lists model; failing Del/batch leave the store bytewise unchanged; a batch is one atomic write. One inductive step covers histories of any length within the size bound.",
      "RocksDB replaced by an ordered key-value model implementing rdb.DBI with RocksDB's documented contract (Get/GetMulti/WriteBatch atomicity); backup/restore (C++ BackupEngine pass-through) is not applicable to this technique and not claimed.",
      "DESIGN.md 4/C15")
claim("C11",
      "Real Wrs.Add/ARecord/AAAARecord/WeightedAnswer over m <= 3 (quick) / 5 (thorough) candidates with symbolic weights (0 and 2^32-1 included), families, TTLs, addresses, a symbolic random stream and arbitrary shuffle: at most MaxAnswers and exactly min(MaxAnswers, #positive-weight) records per family, no repetition, only declared candidates, weight 0 never served, served keys are the largest Efraimidis-Spirakis keys; the variate handed to Pow lies strictly in (0,1), is monotone in the draw, exponent = 1/weight (float64 semantics decided by cvc5's FP theory).",
      "math.Pow replaced by its documented contract on the domain used; the statistical statement (frequencies proportional to weights) is outside this technique: only the functional reduction to E-S keys is decided. FindAnswer/AdditionalSection wiring is covered with the handler world (C01/C13) when built.",
      "DESIGN.md 4/C11")
claim("C19",
      "Sliding window: the real cleaner() goroutine driven by a stub ticker and stub clock (arbitrary non-decreasing whole-second readings), k <= 3 adds and t <= 2 ticks (quick; 5/3 thorough) in solver-chosen order: after every tick the retained samples are exactly the non-expired added samples in order, and Stats.Get() exports their min/max/avg (0,0,0 when empty). Counters and query log: real ServeDNSWithRCODE in the handler world (query space of C13) with recording Stats/Logger/ResponseWriter: DNS_queries and the type counter exactly once, outcome counters equal what the written response dictates, every composed response logged exactly once as the very message written, one cache outcome per query.",
      "time.Now/time.NewTicker substituted (clock in whole seconds); expiry observed at tick granularity; concurrent counter updates (sum of increments under interleaving) are not yet explored.",
      "DESIGN.md 4/C19")
claim("C03",
      "N <= 2 symbolic subnets of one map (16 address bytes, symbolic prefix length 0..128 kept symbolic through net.CIDRMask/IPMask.Size, family, location) go through the real accumulator, Rearranger.AddLocation/Rearrange (sort, location stack, squash), Rrangepoint/Rnet MarshalMap and prefix sets into a model store; the real rdbdriver/cdbdriver GetLocationByMap answers a symbolic client (address, family, prefix length, truncated and non-truncated). Result (location, matched length) equals the longest-prefix-match oracle on every path. Four genuine defects found this way were repaired in /repo (see known_findings.jsonl).",
      "RocksDB/CDB replaced by store models with their documented contracts (SeekForPrev; exact-match multi-value get); validity predicate: a subnet is not declared twice in a map, IPv6 subnets other than ::/0 do not overlap ::ffff:0:0/96, family-2 client addresses are not IPv4-mapped; N=3, free (non-nested) pairs and full 16-byte symbolic IPv6 addresses only in the thorough tier; the name-to-map step (FindMap) is exercised with concrete maps in the handler world, not yet with symbolic names.",
      "DESIGN.md 4/C03")
claim("C10",
      "Handler world (real ServeDNSWithRCODE, FindLocation/EcsLocation, miekg/dns, coredns request) with a symbolic ECS option (family 1: any source length/address/scope; family 2: pool of source lengths, 4 symbolic address bytes; family 0) on names with and without a client-subnet map, three storage layouts, uncached and cache-hit paths: OPT present iff in the query, ECS echoed with family/source/address unchanged, unknown options dropped, scope = deciding subnet length / 24|48 default / 0 without map, never above the family width.",
      "Known finding C10-refused-no-ecs (REFUSED replies omit the ECS option) is excluded by a named predicate and re-confirmed on every run; subnets of the ECS map are the concrete ones of the handler world (symbolic subnets are C03); BADVERS replies judged under C13.",
      "DESIGN.md 4/C10")
claim("C13",
      "Real ServeDNSWithRCODE over four worlds (zone with delegation/wildcard/CNAME/maps, root zone, root delegation, empty database) on three storage layouts: query name from a lattice with one free label byte from 13 character classes, qtype from a pool of 11 (DS, ANY, unassigned included), symbolic ID/flags/opcode/class, OPT with symbolic version/size/flags, ECS of family 0/1/2, an unknown option, UDP or TCP: no panic escapes, at most one reply, reply has the query's ID and question, QR set, Pack() succeeds, fits the advertised size or has TC, BADVERS for version != 0.",
      "Known finding C13-badvers-empty-question (coredns zeroes the question of BADVERS replies) excluded by a named predicate and re-confirmed on every run; raw wire bytes (dns.Msg.Unpack) are not part of the harness: messages are built to satisfy Unpack's post-condition.",
      "DESIGN.md 4/C13")
claim("C18",
      "Parameter lists of k <= 2 (quick) / 3 (thorough) keys chosen by the solver from the seven supported ones (order, duplicates, mandatory contents incl. itself/missing/repeated) with symbolic value parts (port digits, ALPN bytes, IPv4 hint digits, ECH bytes through base64): real FromText/ToWire/ToText; accepted lists have strictly increasing keys, decode with miekg/dns SVCB.unpack to exactly the declared values, print/parse gives identical wire bytes; lists violating the mandatory rules or repeating a key are rejected.",
      "IPv6 hints come from a pool of three textual addresses (textual IPv6 is stdlib code, not the subject); ALPN ids of 1-2 bytes without ; | and double quote; lists longer than 3 keys outside.",
      "DESIGN.md 4/C18")
for p in ["C01","C02","C04","C05","C06","C07","C08","C09","C12","C14","C20"]:
    na(p, "check not built yet in this session (work in progress; see DESIGN.md section 7 build order)")

# Edited as checks come on line; every property is either claimed or listed n/a.
claim("C17",
      "For every byte string of length <= 2 (quick) / <= 3 (thorough) the solver shows, on every path of the real Bquote/Bunquote (strconv.Quote, UnquoteChar, utf8 included), that unquote(quote(b)) == b and the quoted form has no ',' ':' or newline. Bounded, not a proof: longer strings are outside the claim.",
      "Trusts the gosym executor's Go semantics and the SMT solvers; strings longer than the bound are not covered.",
      "DESIGN.md 4/C17")
for p in ["C01","C02","C03","C04","C05","C06","C07","C08","C09","C10","C11","C12","C13","C14","C15","C16","C18","C19","C20"]:
    na(p, "check not built yet in this session (work in progress; see DESIGN.md section 7 build order)")

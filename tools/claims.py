# Edited as checks come on line; every property is either claimed or listed n/a.
claim("C17",
      "For every byte string of length <= 2 (quick) / <= 3 (thorough) the solver shows, on every path of the real Bquote/Bunquote (strconv.Quote, UnquoteChar, utf8 included), that unquote(quote(b)) == b and the quoted form has no ',' ':' or newline. Bounded, not a proof: longer strings are outside the claim.",
      "Trusts the gosym executor's Go semantics and the SMT solvers; strings longer than the bound are not covered.",
      "DESIGN.md 4/C17")
claim("C16",
      "The real cdb writer (Put/Close) and reader (find/FindNext/readNums/match) plus Dump/Make run symbolically on n <= 3 (quick) / 4 (thorough) records with symbolic key/value bytes; the hash is an oracle returning a fresh symbolic 32-bit value per distinct key, so the solver chooses table, slot and full-hash collisions and probe wrap-around. Every look-up returns exactly the written values of that key in insertion order, then EOF; dump+make reproduces the file bytes.",
      "Hash function replaced by an oracle (equal content => equal hash) with the table number confined to a stated small set per shape; spooky.New(0,0).Sum32 == spooky.Hash32 is assumed; files beyond a few records / bufio 4096-byte boundary are outside.",
      "DESIGN.md 4/C16")
claim("C15",
      "One step from an arbitrary valid pre-state (two distinct symbolic keys, value lists with symbolic lengths/bytes) through the real RDB.Add, Del, CreateBatch/Add/Del/ExecuteBatch, read back with the real Find/ForEach and raw: the store equals the map-of-lists model; failing Del/batch leave the store bytewise unchanged; a batch is one atomic write. One inductive step covers histories of any length within the size bound.",
      "RocksDB replaced by an ordered key-value model implementing rdb.DBI with RocksDB's documented contract (Get/GetMulti/WriteBatch atomicity); backup/restore (C++ BackupEngine pass-through) is not applicable to this technique and not claimed.",
      "DESIGN.md 4/C15")
claim("C11",
      "Real Wrs.Add/ARecord/AAAARecord/WeightedAnswer over m <= 3 (quick) / 5 (thorough) candidates with symbolic weights (0 and 2^32-1 included), families, TTLs, addresses, a symbolic random stream and arbitrary shuffle: at most MaxAnswers and exactly min(MaxAnswers, #positive-weight) records per family, no repetition, only declared candidates, weight 0 never served, served keys are the largest Efraimidis-Spirakis keys; the variate handed to Pow lies strictly in (0,1), is monotone in the draw, exponent = 1/weight (float64 semantics decided by cvc5's FP theory).",
      "math.Pow replaced by its documented contract on the domain used; the statistical statement (frequencies proportional to weights) is outside this technique: only the functional reduction to E-S keys is decided. FindAnswer/AdditionalSection wiring is covered with the handler world (C01/C13) when built.",
      "DESIGN.md 4/C11")
claim("C19",
      "Sliding window: the real cleaner() goroutine driven by a stub ticker and stub clock (arbitrary non-decreasing whole-second readings), k <= 3 adds and t <= 2 ticks (quick; 5/3 thorough) in solver-chosen order: after every tick the retained samples are exactly the non-expired added samples in order, and Stats.Get() exports their min/max/avg (0,0,0 when empty). The counter/query-log part is decided in the handler world when built.",
      "time.Now/time.NewTicker substituted (clock in whole seconds); expiry observed at tick granularity; counters and query log clauses not yet covered in this session.",
      "DESIGN.md 4/C19")
for p in ["C01","C02","C03","C04","C05","C06","C07","C08","C09","C10","C12","C13","C14","C18","C20"]:
    na(p, "check not built yet in this session (work in progress; see DESIGN.md section 7 build order)")

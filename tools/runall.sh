#!/bin/bash
# Runs every claimed check (quick tier by default) sequentially and prints a summary.
tier=${1:-quick}
cd /verif
for p in $(python3 -c "import json;print(' '.join(c['property_id'] for c in json.load(open('MANIFEST.json'))['checks']))"); do
  s=$(date +%s)
  bin/gosym check $p --tier $tier > /tmp/runall_$p.log 2>&1; rc=$?
  e=$(date +%s)
  echo "$p exit=$rc $((e-s))s $(grep -c KNOWN-FINDING /tmp/runall_$p.log) known $(grep -c '^VIOLATION' /tmp/runall_$p.log) viol $(grep -c INCONCLUSIVE /tmp/runall_$p.log) inconcl"
done

#!/bin/bash
# usage: seedcheck.sh <seed-id> <property> <worktree> <demo-pkg-dir-rel-to-repo-root> <go test -run regex> [tier] [--harness H]
# Confirms a seeded change in the scratch worktree (demo fails with it, passes without, existing tests pass with it),
# then applies it to /repo, runs the property's check and reverts.
set -u
# CONFIRMONLY=1 stops after the scratch-worktree confirmation (nothing is applied to /repo).
# SKIPCONFIRM=1 skips the scratch-worktree confirmation (already done) and only re-runs the check
id=$1; prop=$2; wt=$3; pkgdir=$4; runre=$5; tier=${6:-quick}; shift 6 2>/dev/null; extra="$@"
export GOFLAGS=-mod=mod GOPROXY=off GOSUMDB=off GOTOOLCHAIN=local
out=/verif/seeded/$id
mkdir -p $out
if [ -z "${SKIPCONFIRM:-}" ]; then
cp $wt/_out/patch.diff $out/patch.diff
cp $wt/_out/zz_demo_test.go $out/zz_demo_test.go
cp $wt/_out/notes.md $out/notes.md 2>/dev/null
fi
moddir=$wt/dnsrocks; rel=${pkgdir#dnsrocks/}
if [[ $pkgdir == dnsrocks/go-cdb-mods* ]]; then moddir=$wt/dnsrocks/go-cdb-mods; rel=${pkgdir#dnsrocks/go-cdb-mods}; rel=${rel#/}; fi
[ -z "$rel" ] && rel=.
restore() { git -C $wt checkout -- dnsrocks/go.mod dnsrocks/go.sum dnsrocks/go-cdb-mods/go.mod dnsrocks/go-cdb-mods/go.sum 2>/dev/null; }
if [ -z "${SKIPCONFIRM:-}" ]; then
cd $wt && git apply $out/patch.diff || { echo "patch does not apply"; exit 2; }
cp $out/zz_demo_test.go $wt/$pkgdir/zz_demo_test.go
(cd $moddir && go test -count=1 -vet=off -ldflags=-checklinkname=0 ./$rel -run "$runre" > $out/demo_with.log 2>&1); with=$?
rm -f $wt/$pkgdir/zz_demo_test.go
(cd $wt/dnsrocks && go test -count=1 -vet=off -ldflags=-checklinkname=0 ./... > $out/suite_with.log 2>&1); s1=$?
if [ $s1 -ne 0 ]; then # ./dnsserver/ has wall-clock-sensitive reload tests that fail under load: retry the failing packages alone
  s1=0; pks=$(grep -E '^(FAIL|panic)' $out/suite_with.log | grep -o 'dnsrocks/[a-z/-]*' | sort -u); [ -z "$pks" ] && s1=1
  for pk in $(grep -E '^(FAIL|panic)' $out/suite_with.log | grep -o 'dnsrocks/[a-z/-]*' | sort -u); do
    (cd $wt/dnsrocks && go test -count=1 -vet=off -p 1 -ldflags=-checklinkname=0 ./${pk#dnsrocks/}/ >> $out/suite_with.log 2>&1) || s1=1
  done
fi
(cd $wt/dnsrocks/go-cdb-mods && go test -count=1 -vet=off . >> $out/suite_with.log 2>&1); s2=$?
restore
git -C $wt apply -R $out/patch.diff
cp $out/zz_demo_test.go $wt/$pkgdir/zz_demo_test.go
(cd $moddir && go test -count=1 -vet=off -ldflags=-checklinkname=0 ./$rel -run "$runre" > $out/demo_without.log 2>&1); without=$?
rm -f $wt/$pkgdir/zz_demo_test.go
restore
echo "demo_with_change_exit=$with (want !=0) demo_without_exit=$without (want 0) suite_with_change_exit=$s1/$s2 (want 0/0)"
echo "{\"with\":$with,\"without\":$without,\"suite\":\"$s1/$s2\"}" > $out/confirm.json
fi
[ -n "${CONFIRMONLY:-}" ] && exit 0
# now the check against /repo
git -C /repo apply $out/patch.diff || { echo "patch does not apply to /repo"; exit 2; }
# the evidence file of the property must keep describing the unchanged tree: set it aside
cp /verif/evidence/$prop.json /tmp/evidence_$prop.keep 2>/dev/null
(cd /verif && bin/gosym check $prop --tier $tier $extra > $out/check_$tier.log 2>&1); chk=$?
git -C /repo checkout -- .
mv /verif/evidence/$prop.json $out/evidence_with_change.json 2>/dev/null
mv /tmp/evidence_$prop.keep /verif/evidence/$prop.json 2>/dev/null
echo "check_exit=$chk (want 1)"; grep -m3 "VIOLATION\|INCONCLUSIVE\|UNCONFIRMED" $out/check_$tier.log | cut -c1-200
echo "{\"confirm\":$(cat $out/confirm.json 2>/dev/null || echo null),\"check_exit\":$chk,\"tier\":\"$tier\"}" > $out/result_$tier.json

#!/usr/bin/env python3
"""Regenerates /verif/MANIFEST.json from the table below (kept valid at all times)."""
import json, sys

BASELINE_OFF = ("export GOFLAGS=-mod=mod GOPROXY=off GOSUMDB=off GOTOOLCHAIN=local; "
    "for m in dnsrocks dnsrocks/go-cdb-mods; do (cd /repo/$m && go test -mod=mod -json -vet=off -count=1 -timeout 25m ./...); done; "
    "git -C /repo checkout -- dnsrocks/go.mod dnsrocks/go.sum dnsrocks/go-cdb-mods/go.mod 2>/dev/null; true")

TECH = "bounded symbolic execution of the real Go SSA (own executor gosym) + SMT (z3 5.1/4.8.12, cvc5 fall-back); every assertion decided by the solver (or exact small-domain evaluation) on every path within the registered shapes; schedules explored exhaustively within the pre-emption bound; counterexamples replayed (natively for the native=yes harnesses, by concrete re-execution of the real code otherwise)"

# property -> (claimed?, level text, level note, design ref)
CLAIMED = {}
NA = {}

def claim(pid, text, note, ref):
    CLAIMED[pid] = (text, note, ref)

def na(pid, reason):
    NA[pid] = reason

exec(open('/verif/tools/claims.py').read())

checks = []
for pid in sorted(CLAIMED):
    text, note, ref = CLAIMED[pid]
    checks.append({
        "property_id": pid,
        "quick_cmd": f"bin/gosym check {pid} --tier quick",
        "thorough_cmd": f"bin/gosym check {pid} --tier thorough",
        "evidence_file": f"/verif/evidence/{pid}.json",
        "replay_cmd_template": "bin/gosym replay {path}",
        "engine": "gosym",
        "level_claimed": {"category": "other", "text": text, "design_ref": ref},
        "level_note": note,
        "technique": TECH,
    })
m = {
    "version": 1,
    "setup_cmd": "make -C /verif setup",
    "hooks": {
        "guard": "verif",
        "enable": "go build tag 'verif' (reserved); no hook is committed: harnesses are injected through go/packages and 'go test -overlay' overlays, nothing is written into /repo",
        "baseline_off_cmd": BASELINE_OFF,
        "source_commits": [],
        "add_only": True,
    },
    "engines": [{
        "name": "gosym", "path": "/verif/engine",
        "serves_properties": sorted(CLAIMED),
        "kind_free_text": "symbolic executor for Go SSA (golang.org/x/tools/go/ssa v0.29.0) with SMT-LIB2 back end over a pipe; path exploration by re-execution; own goroutine scheduler; native replay via go test -overlay",
    }],
    "checks": checks,
    "notes": "Exit codes: 0 held within the stated bounds / 1 VIOLATION (confirmed by replay) / 2 inconclusive (never reported as success). See DESIGN.md.",
    "not_applicable": [{"property_id": p, "reason": NA[p]} for p in sorted(NA)],
}
json.dump(m, open('/verif/MANIFEST.json', 'w'), indent=1)
print("claimed:", sorted(CLAIMED), "n/a:", sorted(NA))

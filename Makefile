# Offline build of the checking machinery.
export GOFLAGS=-mod=mod
export GOPROXY=off
export GOSUMDB=off
export GOTOOLCHAIN=local

.PHONY: setup build selftest
setup: build selftest

build:
	cd engine && go build -o ../bin/gosym ./cmd/gosym

selftest:
	cd engine && go test ./sym -run 'TestSimplifier' -count=1

package sym

// Loading: go/packages with an overlay that injects the harness files and the nd package
// into /repo's module, SSA construction, harness directives.

import (
	"bufio"
	"fmt"
	"go/types"
	"os"
	"path/filepath"
	"sort"
	"strconv"
	"strings"

	"golang.org/x/tools/go/packages"
	"golang.org/x/tools/go/ssa"
	"golang.org/x/tools/go/ssa/ssautil"
)

// RepoRoot and CdbModRoot are the module roots analysed. GOSYM_REPO (development only: a scratch
// worktree) moves them; registered commands never set it.
var (
	RepoTop    = repoTop()
	RepoRoot   = RepoTop + "/dnsrocks"
	CdbModRoot = RepoTop + "/dnsrocks/go-cdb-mods"
)

func repoTop() string {
	if d := os.Getenv("GOSYM_REPO"); d != "" {
		return d
	}
	return "/repo"
}

// Harness describes one //verif:harness directive.
type Harness struct {
	Name     string
	Property string
	PkgRel   string // package dir relative to the harness root, e.g. "dnsdata/quote"
	File     string
	Quick    []map[string]int
	Thorough []map[string]int
	Substs   [][2]string // target, stub
	Native   bool        // native replay possible
	Opts     map[string]string
	Doc      string
}

func parseShapes(s string) []map[string]int {
	var out []map[string]int
	if s == "" || s == "-" {
		return []map[string]int{{}}
	}
	for _, tup := range strings.Split(s, ";") {
		m := map[string]int{}
		for _, kv := range strings.Split(tup, ",") {
			if kv == "" {
				continue
			}
			p := strings.SplitN(kv, "=", 2)
			if len(p) != 2 {
				continue
			}
			n, _ := strconv.Atoi(p[1])
			m[p[0]] = n
		}
		out = append(out, m)
	}
	return out
}

// ScanHarnesses reads all harness directives under root (/verif/harness).
func ScanHarnesses(root string) ([]*Harness, error) {
	var hs []*Harness
	err := filepath.Walk(root, func(path string, info os.FileInfo, err error) error {
		if err != nil {
			return err
		}
		if info.IsDir() || !strings.HasSuffix(path, ".go") || !strings.HasPrefix(filepath.Base(path), "zz_verif_") {
			return nil
		}
		rel, _ := filepath.Rel(root, filepath.Dir(path))
		f, err := os.Open(path)
		if err != nil {
			return err
		}
		defer f.Close()
		sc := bufio.NewScanner(f)
		sc.Buffer(make([]byte, 1<<20), 1<<20)
		var fileHs []*Harness
		var substs [][3]string
		for sc.Scan() {
			line := strings.TrimSpace(sc.Text())
			if !strings.HasPrefix(line, "//verif:") {
				continue
			}
			fields := strings.Fields(strings.TrimPrefix(line, "//verif:"))
			if len(fields) == 0 {
				continue
			}
			switch fields[0] {
			case "harness":
				if len(fields) < 2 {
					continue
				}
				h := &Harness{Name: fields[1], PkgRel: rel, File: path, Opts: map[string]string{}, Native: true}
				quickSet, thoroughSet := false, false
				for _, kv := range fields[2:] {
					p := strings.SplitN(kv, "=", 2)
					if len(p) != 2 {
						continue
					}
					switch p[0] {
					case "property":
						h.Property = p[1]
					case "quick":
						h.Quick = parseShapes(p[1])
						quickSet = true
					case "thorough":
						h.Thorough = parseShapes(p[1])
						thoroughSet = true
					case "native":
						h.Native = p[1] == "yes" || p[1] == "true"
					default:
						h.Opts[p[0]] = p[1]
					}
				}
				if !quickSet {
					h.Quick = []map[string]int{{}}
				}
				if !thoroughSet {
					h.Thorough = h.Quick
				}
				fileHs = append(fileHs, h)
			case "subst":
				// //verif:subst <harness|*> <target> <stub>
				if len(fields) == 4 {
					substs = append(substs, [3]string{fields[1], fields[2], fields[3]})
				}
			case "include":
				// //verif:include <file relative to this file's dir or to the harness root>: import its "*" substs
				if len(fields) == 2 {
					inc := filepath.Join(filepath.Dir(path), fields[1])
					if _, err := os.Stat(inc); err != nil {
						inc = filepath.Join(root, fields[1])
					}
					substs = append(substs, includedSubsts(inc)...)
				}
			}
		}
		for _, h := range fileHs {
			for _, s := range substs {
				if s[0] == "*" || s[0] == h.Name {
					h.Substs = append(h.Substs, [2]string{s[1], s[2]})
				}
			}
		}
		hs = append(hs, fileHs...)
		return nil
	})
	sort.Slice(hs, func(i, j int) bool { return hs[i].Name < hs[j].Name })
	return hs, err
}

func includedSubsts(file string) [][3]string {
	var out [][3]string
	data, err := os.ReadFile(file)
	if err != nil {
		return nil
	}
	for _, line := range strings.Split(string(data), "\n") {
		line = strings.TrimSpace(line)
		if !strings.HasPrefix(line, "//verif:subst ") {
			continue
		}
		f := strings.Fields(strings.TrimPrefix(line, "//verif:"))
		if len(f) == 4 && f[1] == "*" {
			out = append(out, [3]string{"*", f[2], f[3]})
		}
	}
	return out
}

type Loaded struct {
	Prog    *ssa.Program
	Pkg     *ssa.Package
	Scratch string
	Overlay map[string][]byte
	ModRoot string
}

func moduleRootFor(pkgRel string) (root string, sub string) {
	if pkgRel == "go-cdb-mods" || strings.HasPrefix(pkgRel, "go-cdb-mods/") {
		return CdbModRoot, strings.TrimPrefix(strings.TrimPrefix(pkgRel, "go-cdb-mods"), "/")
	}
	return RepoRoot, pkgRel
}

// BuildOverlay maps every file under harnessRoot to its virtual place in the repo.
// Files ending in _native.go are only for native replay; files in zzverif/nd come from
// ndsym (engine side: body-less API) rather than the native implementation.
func BuildOverlay(harnessRoot, pkgRel string, native bool) (map[string][]byte, error) {
	modRoot, _ := moduleRootFor(pkgRel)
	ov := map[string][]byte{}
	err := filepath.Walk(harnessRoot, func(path string, info os.FileInfo, err error) error {
		if err != nil {
			return err
		}
		if info.IsDir() || !strings.HasSuffix(path, ".go") {
			return nil
		}
		rel, _ := filepath.Rel(harnessRoot, path)
		relDir := filepath.Dir(rel)
		inCdb := relDir == "go-cdb-mods" || strings.HasPrefix(relDir, "go-cdb-mods/")
		base := filepath.Base(path)
		isND := strings.HasPrefix(relDir, "zzverif")
		if !isND {
			if (modRoot == CdbModRoot) != inCdb {
				return nil
			}
		}
		if strings.HasSuffix(base, "_native.go") && !native {
			return nil
		}
		if strings.HasSuffix(base, "_sym.go") && native {
			return nil
		}
		data, err := os.ReadFile(path)
		if err != nil {
			return err
		}
		var dst string
		if isND {
			dst = filepath.Join(modRoot, rel)
		} else {
			dst = filepath.Join(RepoRoot, rel)
		}
		if modRoot == CdbModRoot && isND {
			// rewrite nothing: package nd has no repo imports
		}
		ov[dst] = data
		return nil
	})
	return ov, err
}

// Load loads package pkgRel (relative to the module root) with the overlay and builds SSA.
func Load(harnessRoot, pkgRel string) (*Loaded, error) {
	modRoot, sub := moduleRootFor(pkgRel)
	ov, err := BuildOverlay(harnessRoot, pkgRel, false)
	if err != nil {
		return nil, err
	}
	scratch, err := os.MkdirTemp("", "gosym-load-")
	if err != nil {
		return nil, err
	}
	for _, f := range []string{"go.mod", "go.sum"} {
		data, err := os.ReadFile(filepath.Join(modRoot, f))
		if err != nil {
			return nil, err
		}
		if err := os.WriteFile(filepath.Join(scratch, f), data, 0o644); err != nil {
			return nil, err
		}
	}
	env := append(os.Environ(), "GOFLAGS=-mod=mod", "GOPROXY=off", "GOSUMDB=off", "GOTOOLCHAIN=local", "CGO_ENABLED=1")
	cfg := &packages.Config{
		Mode: packages.NeedName | packages.NeedFiles | packages.NeedCompiledGoFiles | packages.NeedImports |
			packages.NeedDeps | packages.NeedTypes | packages.NeedSyntax | packages.NeedTypesInfo | packages.NeedTypesSizes | packages.NeedModule,
		Dir:        modRoot,
		Env:        env,
		Overlay:    ov,
		BuildFlags: []string{"-modfile=" + filepath.Join(scratch, "go.mod"), "-tags=verif,math_big_pure_go"},
	}
	pattern := "./" + sub
	if sub == "" {
		pattern = "."
	}
	pkgs, err := packages.Load(cfg, pattern)
	if err != nil {
		return nil, fmt.Errorf("packages.Load: %w", err)
	}
	var errs []string
	packages.Visit(pkgs, nil, func(p *packages.Package) {
		for _, e := range p.Errors {
			errs = append(errs, e.Error())
		}
	})
	if len(errs) > 0 {
		if len(errs) > 12 {
			errs = errs[:12]
		}
		return nil, fmt.Errorf("load errors (harness does not compile against the current tree?):\n  %s", strings.Join(errs, "\n  "))
	}
	prog, spkgs := ssautil.AllPackages(pkgs, ssa.InstantiateGenerics)
	prog.Build()
	if len(spkgs) == 0 || spkgs[0] == nil {
		return nil, fmt.Errorf("no SSA package for %s", pattern)
	}
	return &Loaded{Prog: prog, Pkg: spkgs[0], Scratch: scratch, Overlay: ov, ModRoot: modRoot}, nil
}

func (l *Loaded) Cleanup() {
	if l.Scratch != "" {
		os.RemoveAll(l.Scratch)
	}
}

// ResolveFunc finds a function or method by its ssa String() form, e.g.
// "time.Now", "(*math/rand.Rand).Uint32", "(github.com/x/y.T).M".
func ResolveFunc(prog *ssa.Program, name string) *ssa.Function {
	if strings.HasPrefix(name, "(") {
		// method: (recv).Name
		i := strings.LastIndex(name, ").")
		if i < 0 {
			return nil
		}
		recv, meth := name[1:i], name[i+2:]
		ptr := strings.HasPrefix(recv, "*")
		recv = strings.TrimPrefix(recv, "*")
		j := strings.LastIndex(recv, ".")
		if j < 0 {
			return nil
		}
		pkgPath, typeName := recv[:j], recv[j+1:]
		pkg := prog.ImportedPackage(pkgPath)
		if pkg == nil {
			return nil
		}
		tm := pkg.Type(typeName)
		if tm == nil {
			return nil
		}
		var T types.Type = tm.Type()
		if ptr {
			T = types.NewPointer(T)
		}
		sel := prog.MethodSets.MethodSet(T).Lookup(pkg.Pkg, meth)
		if sel == nil {
			return nil
		}
		return prog.MethodValue(sel)
	}
	j := strings.LastIndex(name, ".")
	if j < 0 {
		return nil
	}
	pkg := prog.ImportedPackage(name[:j])
	if pkg == nil {
		return nil
	}
	return pkg.Func(name[j+1:])
}

package sym

// Hash-consed term DAG over Bool, BitVec(1..64) and Float64, with constant
// folding constructors, an evaluator under a model, and an SMT-LIB2 printer.

import (
	"fmt"
	"math"
	"math/bits"
	"strings"
)

type Op uint8

const (
	OpConst Op = iota // bv or bool constant (k)
	OpVar
	OpAdd
	OpSub
	OpMul
	OpUDiv
	OpURem
	OpSDiv
	OpSRem
	OpAnd
	OpOr
	OpXor
	OpNot
	OpNeg
	OpShl
	OpLShr
	OpAShr
	OpExtract // k = hi<<8|lo
	OpZExt
	OpSExt
	OpConcat
	OpIte
	OpEq
	OpUlt
	OpUle
	OpSlt
	OpSle
	OpBAnd
	OpBOr
	OpBNot
	// floating point (float64 only)
	OpFConst   // k = bits
	OpFFromUBV // a: bv
	OpFFromSBV
	OpFAdd
	OpFSub
	OpFMul
	OpFDiv
	OpFNeg
	OpFRound32 // a rounded to float32 precision (RNE), as a float64
	OpFLt
	OpFLe
	OpFEq
	OpFToSBV // w = target width, RTZ
	OpFToUBV
	OpFIsNaN
	OpFBits // float64 -> bv64 (via fresh var constraint not needed: use fp.to_ieee_bv unsupported) -- unused
)

const (
	SortBool  = 0
	SortFloat = 0xFFFF
)

// Term is an immutable DAG node. w is the sort: 0 = Bool, 1..64 = BitVec width, SortFloat = Float64.
type Term struct {
	op      Op
	w       uint16
	a, b, c *Term
	k       uint64
	name    string
	id      int
	sup     []*Term // support (variables), computed lazily; supMany if more than maxSupport
	supDone bool
	supMany bool
}

const maxSupport = 2

// Support returns the variables t depends on, or many=true if there are more than maxSupport.
func (t *Term) Support() (vars []*Term, many bool) {
	if t.supDone {
		return t.sup, t.supMany
	}
	switch t.op {
	case OpConst, OpFConst:
	case OpVar:
		t.sup = []*Term{t}
	default:
		for _, c := range [3]*Term{t.a, t.b, t.c} {
			if c == nil {
				continue
			}
			cv, cm := c.Support()
			if cm {
				t.supMany = true
				break
			}
			for _, v := range cv {
				found := false
				for _, x := range t.sup {
					if x == v {
						found = true
					}
				}
				if !found {
					t.sup = append(t.sup, v)
				}
			}
			if len(t.sup) > maxSupport {
				t.supMany = true
				break
			}
		}
		if t.supMany {
			t.sup = nil
		}
	}
	t.supDone = true
	return t.sup, t.supMany
}

func (t *Term) IsConst() bool { return t.op == OpConst || t.op == OpFConst }
func (t *Term) Width() int    { return int(t.w) }
func (t *Term) IsBool() bool  { return t.w == SortBool }
func (t *Term) ID() int       { return t.id }

type termKey struct {
	op      Op
	w       uint16
	a, b, c int
	k       uint64
	name    string
}

// TermStore hash-conses terms. One per worker; not thread safe.
type TermStore struct {
	tab    map[termKey]*Term
	all    []*Term
	vars   []*Term
	nextID int
	True   *Term
	False  *Term
}

func NewTermStore() *TermStore {
	s := &TermStore{tab: make(map[termKey]*Term)}
	s.False = s.mk(OpConst, SortBool, nil, nil, nil, 0, "")
	s.True = s.mk(OpConst, SortBool, nil, nil, nil, 1, "")
	return s
}

func tid(t *Term) int {
	if t == nil {
		return -1
	}
	return t.id
}

func (s *TermStore) mk(op Op, w uint16, a, b, c *Term, k uint64, name string) *Term {
	key := termKey{op, w, tid(a), tid(b), tid(c), k, name}
	if t, ok := s.tab[key]; ok {
		return t
	}
	t := &Term{op: op, w: w, a: a, b: b, c: c, k: k, name: name, id: s.nextID}
	s.nextID++
	s.tab[key] = t
	s.all = append(s.all, t)
	if op == OpVar {
		s.vars = append(s.vars, t)
	}
	return t
}

func mask(w uint16) uint64 {
	if w >= 64 {
		return ^uint64(0)
	}
	return (uint64(1) << w) - 1
}

func sext64(v uint64, w uint16) int64 {
	if w >= 64 {
		return int64(v)
	}
	sh := 64 - uint(w)
	return int64(v<<sh) >> sh
}

func (s *TermStore) Const(w int, v uint64) *Term {
	if w == SortBool {
		if v != 0 {
			return s.True
		}
		return s.False
	}
	return s.mk(OpConst, uint16(w), nil, nil, nil, v&mask(uint16(w)), "")
}

func (s *TermStore) Bool(b bool) *Term {
	if b {
		return s.True
	}
	return s.False
}

func (s *TermStore) FConst(f float64) *Term {
	return s.mk(OpFConst, SortFloat, nil, nil, nil, math.Float64bits(f), "")
}

// Var creates a fresh variable (names must be unique per path position so that
// re-execution recreates the identical variable).
func (s *TermStore) Var(name string, w int) *Term {
	return s.mk(OpVar, uint16(w), nil, nil, nil, 0, name)
}

func (s *TermStore) Vars() []*Term { return s.vars }

// ---- bit-vector constructors ----

func (s *TermStore) Bin(op Op, a, b *Term) *Term {
	if a.w != b.w {
		panic(fmt.Sprintf("term: width mismatch %d vs %d in op %d", a.w, b.w, op))
	}
	w := a.w
	if a.op == OpConst && b.op == OpConst {
		return s.Const(int(w), foldBin(op, w, a.k, b.k))
	}
	// algebraic simplifications
	switch op {
	case OpAdd:
		if a.op == OpConst {
			a, b = b, a
		}
		if b.op == OpConst && b.k == 0 {
			return a
		}
		// (x + c1) + c2
		if b.op == OpConst && a.op == OpAdd && a.b.op == OpConst {
			return s.Bin(OpAdd, a.a, s.Const(int(w), a.b.k+b.k))
		}
	case OpSub:
		if b.op == OpConst {
			if b.k == 0 {
				return a
			}
			return s.Bin(OpAdd, a, s.Const(int(w), -b.k))
		}
		if a == b {
			return s.Const(int(w), 0)
		}
	case OpMul:
		if a.op == OpConst {
			a, b = b, a
		}
		if b.op == OpConst {
			if b.k == 0 {
				return b
			}
			if b.k == 1 {
				return a
			}
		}
	case OpAnd:
		if a.op == OpConst {
			a, b = b, a
		}
		if b.op == OpConst {
			if b.k == 0 {
				return b
			}
			if b.k == mask(w) {
				return a
			}
			// (zext x) & m where m covers x's width
			if a.op == OpZExt && b.k&mask(a.a.w) == mask(a.a.w) {
				return a
			}
			// x & (2^k-1)  =>  zext(extract(x, k-1, 0))
			if b.k&(b.k+1) == 0 && b.k != 0 {
				k := bits.Len64(b.k)
				return s.ZExt(s.Extract(a, k-1, 0), int(w))
			}
		}
		if a == b {
			return a
		}
	case OpOr:
		if a.op == OpConst {
			a, b = b, a
		}
		if b.op == OpConst {
			if b.k == 0 {
				return a
			}
			if b.k == mask(w) {
				return b
			}
		}
		if a == b {
			return a
		}
	case OpXor:
		if a.op == OpConst {
			a, b = b, a
		}
		if b.op == OpConst && b.k == 0 {
			return a
		}
		if a == b {
			return s.Const(int(w), 0)
		}
	case OpShl, OpLShr:
		if b.op == OpConst {
			if b.k == 0 {
				return a
			}
			if b.k >= uint64(w) {
				return s.Const(int(w), 0)
			}
			if op == OpLShr && a.op == OpZExt && b.k >= uint64(a.a.w) {
				return s.Const(int(w), 0)
			}
		}
		if a.op == OpConst && a.k == 0 {
			return a
		}
	case OpAShr:
		if b.op == OpConst && b.k == 0 {
			return a
		}
	case OpUDiv, OpURem:
		if b.op == OpConst && b.k == 1 {
			if op == OpUDiv {
				return a
			}
			return s.Const(int(w), 0)
		}
		if b.op == OpConst && b.k != 0 && bits.OnesCount64(b.k) == 1 {
			// power of two
			sh := uint64(bits.TrailingZeros64(b.k))
			if op == OpUDiv {
				return s.Bin(OpLShr, a, s.Const(int(w), sh))
			}
			return s.Bin(OpAnd, a, s.Const(int(w), b.k-1))
		}
	}
	return s.mk(op, w, a, b, nil, 0, "")
}

func foldBin(op Op, w uint16, x, y uint64) uint64 {
	m := mask(w)
	switch op {
	case OpAdd:
		return (x + y) & m
	case OpSub:
		return (x - y) & m
	case OpMul:
		return (x * y) & m
	case OpUDiv:
		if y == 0 {
			return m
		}
		return x / y
	case OpURem:
		if y == 0 {
			return x
		}
		return x % y
	case OpSDiv:
		sx, sy := sext64(x, w), sext64(y, w)
		if sy == 0 {
			if sx < 0 {
				return 1
			}
			return m
		}
		if sy == -1 {
			return uint64(-sx) & m
		}
		return uint64(sx/sy) & m
	case OpSRem:
		sx, sy := sext64(x, w), sext64(y, w)
		if sy == 0 {
			return x
		}
		if sy == -1 {
			return 0
		}
		return uint64(sx%sy) & m
	case OpAnd:
		return x & y
	case OpOr:
		return x | y
	case OpXor:
		return x ^ y
	case OpShl:
		if y >= uint64(w) {
			return 0
		}
		return (x << y) & m
	case OpLShr:
		if y >= uint64(w) {
			return 0
		}
		return x >> y
	case OpAShr:
		sx := sext64(x, w)
		if y >= uint64(w) {
			y = uint64(w) - 1
		}
		return uint64(sx>>y) & m
	}
	panic("foldBin")
}

func (s *TermStore) Not(a *Term) *Term {
	if a.op == OpConst {
		return s.Const(int(a.w), ^a.k)
	}
	if a.op == OpNot {
		return a.a
	}
	return s.mk(OpNot, a.w, a, nil, nil, 0, "")
}

func (s *TermStore) Neg(a *Term) *Term {
	if a.op == OpConst {
		return s.Const(int(a.w), -a.k)
	}
	return s.mk(OpNeg, a.w, a, nil, nil, 0, "")
}

func (s *TermStore) Extract(a *Term, hi, lo int) *Term {
	if lo == 0 && hi == int(a.w)-1 {
		return a
	}
	w := uint16(hi - lo + 1)
	if a.op == OpConst {
		return s.Const(int(w), a.k>>uint(lo))
	}
	switch a.op {
	case OpZExt:
		if hi < int(a.a.w) {
			return s.Extract(a.a, hi, lo)
		}
		if lo >= int(a.a.w) {
			return s.Const(int(w), 0)
		}
		if lo == 0 {
			return s.ZExt(a.a, int(w))
		}
	case OpSExt:
		if hi < int(a.a.w) {
			return s.Extract(a.a, hi, lo)
		}
		if lo == 0 {
			return s.SExt(a.a, int(w))
		}
	case OpExtract:
		alo := int(a.k & 0xff)
		return s.Extract(a.a, hi+alo, lo+alo)
	case OpConcat:
		bw := int(a.b.w)
		if hi < bw {
			return s.Extract(a.b, hi, lo)
		}
		if lo >= bw {
			return s.Extract(a.a, hi-bw, lo-bw)
		}
	case OpAnd, OpOr, OpXor:
		if lo == 0 {
			return s.Bin(a.op, s.Extract(a.a, hi, 0), s.Extract(a.b, hi, 0))
		}
	case OpAdd, OpSub, OpMul:
		if lo == 0 {
			return s.Bin(a.op, s.Extract(a.a, hi, 0), s.Extract(a.b, hi, 0))
		}
	case OpIte:
		if a.b.op == OpConst || a.c.op == OpConst {
			return s.Ite(a.a, s.Extract(a.b, hi, lo), s.Extract(a.c, hi, lo))
		}
	}
	return s.mk(OpExtract, w, a, nil, nil, uint64(hi)<<8|uint64(lo), "")
}

func (s *TermStore) ZExt(a *Term, w int) *Term {
	if int(a.w) == w {
		return a
	}
	if int(a.w) > w {
		return s.Extract(a, w-1, 0)
	}
	if a.op == OpConst {
		return s.Const(w, a.k)
	}
	if a.op == OpZExt {
		return s.ZExt(a.a, w)
	}
	if a.op == OpIte && (a.b.op == OpConst || a.c.op == OpConst) {
		return s.Ite(a.a, s.ZExt(a.b, w), s.ZExt(a.c, w))
	}
	return s.mk(OpZExt, uint16(w), a, nil, nil, 0, "")
}

func (s *TermStore) SExt(a *Term, w int) *Term {
	if int(a.w) == w {
		return a
	}
	if int(a.w) > w {
		return s.Extract(a, w-1, 0)
	}
	if a.op == OpConst {
		return s.Const(w, uint64(sext64(a.k, a.w)))
	}
	if a.op == OpSExt {
		return s.SExt(a.a, w)
	}
	if a.op == OpZExt {
		return s.ZExt(a.a, w)
	}
	return s.mk(OpSExt, uint16(w), a, nil, nil, 0, "")
}

func (s *TermStore) Concat(hi, lo *Term) *Term {
	w := hi.w + lo.w
	if hi.op == OpConst && lo.op == OpConst {
		return s.Const(int(w), hi.k<<lo.w|lo.k)
	}
	if hi.op == OpConst && hi.k == 0 {
		return s.ZExt(lo, int(w))
	}
	return s.mk(OpConcat, w, hi, lo, nil, 0, "")
}

func (s *TermStore) Ite(c, a, b *Term) *Term {
	if a.w != b.w {
		panic("term: ite width mismatch")
	}
	if c.op == OpConst {
		if c.k != 0 {
			return a
		}
		return b
	}
	if a == b {
		return a
	}
	if c.op == OpBNot {
		return s.Ite(c.a, b, a)
	}
	if a.w == SortBool {
		if a.op == OpConst && b.op == OpConst {
			if a.k != 0 {
				return c
			}
			return s.BNot(c)
		}
		if a.op == OpConst {
			if a.k != 0 {
				return s.BOr(c, b)
			}
			return s.BAnd(s.BNot(c), b)
		}
		if b.op == OpConst {
			if b.k != 0 {
				return s.BOr(s.BNot(c), a)
			}
			return s.BAnd(c, a)
		}
	}
	// ite(c, x, ite(c, y, z)) = ite(c, x, z)
	if b.op == OpIte && b.a == c {
		return s.Ite(c, a, b.c)
	}
	if a.op == OpIte && a.a == c {
		return s.Ite(c, a.b, b)
	}
	return s.mk(OpIte, a.w, c, a, b, 0, "")
}

// ---- predicates ----

func (s *TermStore) Eq(a, b *Term) *Term {
	if a.w != b.w {
		panic(fmt.Sprintf("term: eq width mismatch %d vs %d", a.w, b.w))
	}
	if a == b {
		return s.True
	}
	if a.op == OpConst && b.op == OpConst {
		return s.Bool(a.k == b.k)
	}
	if a.w == SortBool {
		if a.op == OpConst {
			a, b = b, a
		}
		if b.op == OpConst {
			if b.k != 0 {
				return a
			}
			return s.BNot(a)
		}
	}
	if a.op == OpConst {
		a, b = b, a
	}
	if b.op == OpConst {
		switch a.op {
		case OpIte:
			// push equality with a constant through ite chains of constants
			if a.b.op == OpConst || a.c.op == OpConst || a.b.op == OpIte || a.c.op == OpIte {
				if iteDepth(a) <= 64 {
					return s.Ite(a.a, s.Eq(a.b, b), s.Eq(a.c, b))
				}
			}
		case OpZExt:
			if b.k>>a.a.w != 0 {
				return s.False
			}
			return s.Eq(a.a, s.Const(int(a.a.w), b.k))
		case OpSExt:
			sv := sext64(b.k&mask(a.a.w), a.a.w)
			if uint64(sv)&mask(a.w) != b.k {
				return s.False
			}
			return s.Eq(a.a, s.Const(int(a.a.w), b.k))
		case OpAdd:
			if a.b.op == OpConst {
				return s.Eq(a.a, s.Const(int(a.w), b.k-a.b.k))
			}
		case OpXor:
			if a.b.op == OpConst {
				return s.Eq(a.a, s.Const(int(a.w), b.k^a.b.k))
			}
		case OpConcat:
			return s.BAnd(s.Eq(a.a, s.Const(int(a.a.w), b.k>>a.b.w)), s.Eq(a.b, s.Const(int(a.b.w), b.k)))
		}
	}
	if a.op == OpZExt && b.op == OpZExt && a.a.w == b.a.w {
		return s.Eq(a.a, b.a)
	}
	if a.id > b.id {
		a, b = b, a
	}
	return s.mk(OpEq, SortBool, a, b, nil, 0, "")
}

func iteDepth(t *Term) int {
	d := 0
	for t.op == OpIte {
		d++
		if t.c.op == OpIte {
			t = t.c
		} else {
			t = t.b
		}
	}
	return d
}

func (s *TermStore) Cmp(op Op, a, b *Term) *Term {
	if a.w != b.w {
		panic("term: cmp width mismatch")
	}
	if a.op == OpConst && b.op == OpConst {
		switch op {
		case OpUlt:
			return s.Bool(a.k < b.k)
		case OpUle:
			return s.Bool(a.k <= b.k)
		case OpSlt:
			return s.Bool(sext64(a.k, a.w) < sext64(b.k, b.w))
		case OpSle:
			return s.Bool(sext64(a.k, a.w) <= sext64(b.k, b.w))
		}
	}
	if a == b {
		return s.Bool(op == OpUle || op == OpSle)
	}
	w := a.w
	switch op {
	case OpUlt:
		if b.op == OpConst && b.k == 0 {
			return s.False
		}
		if a.op == OpConst && a.k == mask(w) {
			return s.False
		}
		if a.op == OpZExt && b.op == OpConst {
			if b.k > mask(a.a.w) {
				return s.True
			}
			return s.Cmp(OpUlt, a.a, s.Const(int(a.a.w), b.k))
		}
		if b.op == OpZExt && a.op == OpConst {
			if a.k >= mask(b.a.w) {
				return s.False
			}
			return s.Cmp(OpUlt, s.Const(int(b.a.w), a.k), b.a)
		}
		if a.op == OpZExt && b.op == OpZExt && a.a.w == b.a.w {
			return s.Cmp(OpUlt, a.a, b.a)
		}
	case OpUle:
		if a.op == OpConst && a.k == 0 {
			return s.True
		}
		if b.op == OpConst && b.k == mask(w) {
			return s.True
		}
		if a.op == OpZExt && b.op == OpConst {
			if b.k >= mask(a.a.w) {
				return s.True
			}
			return s.Cmp(OpUle, a.a, s.Const(int(a.a.w), b.k))
		}
		if b.op == OpZExt && a.op == OpConst {
			if a.k > mask(b.a.w) {
				return s.False
			}
			return s.Cmp(OpUle, s.Const(int(b.a.w), a.k), b.a)
		}
		if a.op == OpZExt && b.op == OpZExt && a.a.w == b.a.w {
			return s.Cmp(OpUle, a.a, b.a)
		}
	case OpSlt, OpSle:
		// zero-extended operands are non-negative: compare unsigned
		if a.op == OpZExt && b.op == OpZExt {
			if op == OpSlt {
				return s.Cmp(OpUlt, a, b)
			}
			return s.Cmp(OpUle, a, b)
		}
		if a.op == OpZExt && b.op == OpConst {
			if sext64(b.k, w) < 0 {
				return s.False
			}
			if op == OpSlt {
				return s.Cmp(OpUlt, a, b)
			}
			return s.Cmp(OpUle, a, b)
		}
		if b.op == OpZExt && a.op == OpConst {
			if sext64(a.k, w) < 0 {
				return s.True
			}
			if op == OpSlt {
				return s.Cmp(OpUlt, a, b)
			}
			return s.Cmp(OpUle, a, b)
		}
	}
	return s.mk(op, SortBool, a, b, nil, 0, "")
}

// ---- boolean ----

func (s *TermStore) BNot(a *Term) *Term {
	if a.op == OpConst {
		return s.Bool(a.k == 0)
	}
	if a.op == OpBNot {
		return a.a
	}
	return s.mk(OpBNot, SortBool, a, nil, nil, 0, "")
}

func (s *TermStore) BAnd(a, b *Term) *Term {
	if a.op == OpConst {
		if a.k != 0 {
			return b
		}
		return a
	}
	if b.op == OpConst {
		if b.k != 0 {
			return a
		}
		return b
	}
	if a == b {
		return a
	}
	if (a.op == OpBNot && a.a == b) || (b.op == OpBNot && b.a == a) {
		return s.False
	}
	if a.id > b.id {
		a, b = b, a
	}
	return s.mk(OpBAnd, SortBool, a, b, nil, 0, "")
}

func (s *TermStore) BOr(a, b *Term) *Term {
	if a.op == OpConst {
		if a.k != 0 {
			return a
		}
		return b
	}
	if b.op == OpConst {
		if b.k != 0 {
			return b
		}
		return a
	}
	if a == b {
		return a
	}
	if (a.op == OpBNot && a.a == b) || (b.op == OpBNot && b.a == a) {
		return s.True
	}
	if a.id > b.id {
		a, b = b, a
	}
	return s.mk(OpBOr, SortBool, a, b, nil, 0, "")
}

// ---- floating point ----

func (s *TermStore) FFromBV(a *Term, signed bool) *Term {
	if a.op == OpConst {
		if signed {
			return s.FConst(float64(sext64(a.k, a.w)))
		}
		return s.FConst(float64(a.k))
	}
	op := OpFFromUBV
	if signed {
		op = OpFFromSBV
	}
	return s.mk(op, SortFloat, a, nil, nil, 0, "")
}

func (s *TermStore) FBin(op Op, a, b *Term) *Term {
	if a.op == OpFConst && b.op == OpFConst {
		x, y := math.Float64frombits(a.k), math.Float64frombits(b.k)
		switch op {
		case OpFAdd:
			return s.FConst(x + y)
		case OpFSub:
			return s.FConst(x - y)
		case OpFMul:
			return s.FConst(x * y)
		case OpFDiv:
			return s.FConst(x / y)
		}
	}
	return s.mk(op, SortFloat, a, b, nil, 0, "")
}

// FRound32 is float64(float32(a)).
func (s *TermStore) FRound32(a *Term) *Term {
	if a.op == OpFConst {
		return s.FConst(float64(float32(math.Float64frombits(a.k))))
	}
	if a.op == OpFRound32 {
		return a
	}
	return s.mk(OpFRound32, SortFloat, a, nil, nil, 0, "")
}

func (s *TermStore) FNeg(a *Term) *Term {
	if a.op == OpFConst {
		return s.FConst(-math.Float64frombits(a.k))
	}
	return s.mk(OpFNeg, SortFloat, a, nil, nil, 0, "")
}

func (s *TermStore) FCmp(op Op, a, b *Term) *Term {
	if a.op == OpFConst && b.op == OpFConst {
		x, y := math.Float64frombits(a.k), math.Float64frombits(b.k)
		switch op {
		case OpFLt:
			return s.Bool(x < y)
		case OpFLe:
			return s.Bool(x <= y)
		case OpFEq:
			return s.Bool(x == y)
		}
	}
	return s.mk(op, SortBool, a, b, nil, 0, "")
}

func (s *TermStore) FIsNaN(a *Term) *Term {
	if a.op == OpFConst {
		return s.Bool(math.IsNaN(math.Float64frombits(a.k)))
	}
	return s.mk(OpFIsNaN, SortBool, a, nil, nil, 0, "")
}

func (s *TermStore) FToBV(a *Term, w int, signed bool) *Term {
	if a.op == OpFConst {
		f := math.Float64frombits(a.k)
		if signed {
			return s.Const(w, uint64(int64(f)))
		}
		return s.Const(w, uint64(f))
	}
	op := OpFToUBV
	if signed {
		op = OpFToSBV
	}
	return s.mk(op, uint16(w), a, nil, nil, 0, "")
}

// ---- evaluation under a model ----

type Model map[*Term]uint64

// Eval evaluates t under m (variables absent from m evaluate to 0).
func Eval(t *Term, m Model, memo map[*Term]uint64) uint64 {
	if t.op == OpConst || t.op == OpFConst {
		return t.k
	}
	if v, ok := memo[t]; ok {
		return v
	}
	var r uint64
	switch t.op {
	case OpVar:
		r = m[t] & maskSort(t.w)
	case OpAdd, OpSub, OpMul, OpUDiv, OpURem, OpSDiv, OpSRem, OpAnd, OpOr, OpXor, OpShl, OpLShr, OpAShr:
		r = foldBin(t.op, t.w, Eval(t.a, m, memo), Eval(t.b, m, memo))
	case OpNot:
		r = ^Eval(t.a, m, memo) & mask(t.w)
	case OpNeg:
		r = -Eval(t.a, m, memo) & mask(t.w)
	case OpExtract:
		lo := uint(t.k & 0xff)
		r = (Eval(t.a, m, memo) >> lo) & mask(t.w)
	case OpZExt:
		r = Eval(t.a, m, memo)
	case OpSExt:
		r = uint64(sext64(Eval(t.a, m, memo), t.a.w)) & mask(t.w)
	case OpConcat:
		r = Eval(t.a, m, memo)<<t.b.w | Eval(t.b, m, memo)
	case OpIte:
		if Eval(t.a, m, memo) != 0 {
			r = Eval(t.b, m, memo)
		} else {
			r = Eval(t.c, m, memo)
		}
	case OpEq:
		r = b2u(Eval(t.a, m, memo) == Eval(t.b, m, memo))
		if t.a.w == SortFloat {
			panic("Eq on float")
		}
	case OpUlt:
		r = b2u(Eval(t.a, m, memo) < Eval(t.b, m, memo))
	case OpUle:
		r = b2u(Eval(t.a, m, memo) <= Eval(t.b, m, memo))
	case OpSlt:
		r = b2u(sext64(Eval(t.a, m, memo), t.a.w) < sext64(Eval(t.b, m, memo), t.a.w))
	case OpSle:
		r = b2u(sext64(Eval(t.a, m, memo), t.a.w) <= sext64(Eval(t.b, m, memo), t.a.w))
	case OpBAnd:
		r = b2u(Eval(t.a, m, memo) != 0 && Eval(t.b, m, memo) != 0)
	case OpBOr:
		r = b2u(Eval(t.a, m, memo) != 0 || Eval(t.b, m, memo) != 0)
	case OpBNot:
		r = b2u(Eval(t.a, m, memo) == 0)
	case OpFFromUBV:
		r = math.Float64bits(float64(Eval(t.a, m, memo)))
	case OpFFromSBV:
		r = math.Float64bits(float64(sext64(Eval(t.a, m, memo), t.a.w)))
	case OpFAdd, OpFSub, OpFMul, OpFDiv:
		x, y := math.Float64frombits(Eval(t.a, m, memo)), math.Float64frombits(Eval(t.b, m, memo))
		var f float64
		switch t.op {
		case OpFAdd:
			f = x + y
		case OpFSub:
			f = x - y
		case OpFMul:
			f = x * y
		case OpFDiv:
			f = x / y
		}
		r = math.Float64bits(f)
	case OpFNeg:
		r = math.Float64bits(-math.Float64frombits(Eval(t.a, m, memo)))
	case OpFRound32:
		r = math.Float64bits(float64(float32(math.Float64frombits(Eval(t.a, m, memo)))))
	case OpFLt, OpFLe, OpFEq:
		x, y := math.Float64frombits(Eval(t.a, m, memo)), math.Float64frombits(Eval(t.b, m, memo))
		switch t.op {
		case OpFLt:
			r = b2u(x < y)
		case OpFLe:
			r = b2u(x <= y)
		case OpFEq:
			r = b2u(x == y)
		}
	case OpFIsNaN:
		r = b2u(math.IsNaN(math.Float64frombits(Eval(t.a, m, memo))))
	case OpFToSBV:
		r = uint64(int64(math.Float64frombits(Eval(t.a, m, memo)))) & mask(t.w)
	case OpFToUBV:
		r = uint64(math.Float64frombits(Eval(t.a, m, memo))) & mask(t.w)
	default:
		panic(fmt.Sprintf("Eval: op %d", t.op))
	}
	memo[t] = r
	return r
}

func maskSort(w uint16) uint64 {
	if w == SortBool {
		return 1
	}
	if w == SortFloat {
		return ^uint64(0)
	}
	return mask(w)
}

func b2u(b bool) uint64 {
	if b {
		return 1
	}
	return 0
}

// ---- SMT-LIB printing ----

func sortString(w uint16) string {
	switch w {
	case SortBool:
		return "Bool"
	case SortFloat:
		return "(_ FloatingPoint 11 53)"
	}
	return fmt.Sprintf("(_ BitVec %d)", w)
}

func bvLit(w uint16, k uint64) string {
	if w%4 == 0 {
		return fmt.Sprintf("#x%0*x", int(w/4), k)
	}
	return fmt.Sprintf("#b%0*b", int(w), k)
}

func (t *Term) ref() string {
	switch t.op {
	case OpConst:
		if t.w == SortBool {
			if t.k != 0 {
				return "true"
			}
			return "false"
		}
		return bvLit(t.w, t.k)
	case OpFConst:
		return fmt.Sprintf("((_ to_fp 11 53) %s)", bvLit(64, t.k))
	case OpVar:
		return fmt.Sprintf("v%d", t.id)
	}
	return fmt.Sprintf("t%d", t.id)
}

var opNames = map[Op]string{
	OpAdd: "bvadd", OpSub: "bvsub", OpMul: "bvmul", OpUDiv: "bvudiv", OpURem: "bvurem", OpSDiv: "bvsdiv", OpSRem: "bvsrem",
	OpAnd: "bvand", OpOr: "bvor", OpXor: "bvxor", OpShl: "bvshl", OpLShr: "bvlshr", OpAShr: "bvashr",
	OpUlt: "bvult", OpUle: "bvule", OpSlt: "bvslt", OpSle: "bvsle", OpBAnd: "and", OpBOr: "or",
	OpFLt: "fp.lt", OpFLe: "fp.leq", OpFEq: "fp.eq", OpConcat: "concat", OpEq: "=",
}

// body returns the SMT-LIB expression of a non-leaf term in terms of its children's refs.
func (t *Term) body() string {
	switch t.op {
	case OpAdd, OpSub, OpMul, OpUDiv, OpURem, OpSDiv, OpSRem, OpAnd, OpOr, OpXor, OpShl, OpLShr, OpAShr,
		OpUlt, OpUle, OpSlt, OpSle, OpBAnd, OpBOr, OpFLt, OpFLe, OpFEq, OpConcat, OpEq:
		return fmt.Sprintf("(%s %s %s)", opNames[t.op], t.a.ref(), t.b.ref())
	case OpNot:
		return fmt.Sprintf("(bvnot %s)", t.a.ref())
	case OpNeg:
		return fmt.Sprintf("(bvneg %s)", t.a.ref())
	case OpBNot:
		return fmt.Sprintf("(not %s)", t.a.ref())
	case OpExtract:
		return fmt.Sprintf("((_ extract %d %d) %s)", t.k>>8, t.k&0xff, t.a.ref())
	case OpZExt:
		return fmt.Sprintf("((_ zero_extend %d) %s)", t.w-t.a.w, t.a.ref())
	case OpSExt:
		return fmt.Sprintf("((_ sign_extend %d) %s)", t.w-t.a.w, t.a.ref())
	case OpIte:
		return fmt.Sprintf("(ite %s %s %s)", t.a.ref(), t.b.ref(), t.c.ref())
	case OpFFromUBV:
		return fmt.Sprintf("((_ to_fp_unsigned 11 53) RNE %s)", t.a.ref())
	case OpFFromSBV:
		return fmt.Sprintf("((_ to_fp 11 53) RNE %s)", t.a.ref())
	case OpFAdd:
		return fmt.Sprintf("(fp.add RNE %s %s)", t.a.ref(), t.b.ref())
	case OpFSub:
		return fmt.Sprintf("(fp.sub RNE %s %s)", t.a.ref(), t.b.ref())
	case OpFMul:
		return fmt.Sprintf("(fp.mul RNE %s %s)", t.a.ref(), t.b.ref())
	case OpFDiv:
		return fmt.Sprintf("(fp.div RNE %s %s)", t.a.ref(), t.b.ref())
	case OpFNeg:
		return fmt.Sprintf("(fp.neg %s)", t.a.ref())
	case OpFRound32:
		return fmt.Sprintf("((_ to_fp 11 53) RNE ((_ to_fp 8 24) RNE %s))", t.a.ref())
	case OpFIsNaN:
		return fmt.Sprintf("(fp.isNaN %s)", t.a.ref())
	case OpFToSBV:
		return fmt.Sprintf("((_ fp.to_sbv %d) RTZ %s)", t.w, t.a.ref())
	case OpFToUBV:
		return fmt.Sprintf("((_ fp.to_ubv %d) RTZ %s)", t.w, t.a.ref())
	}
	panic(fmt.Sprintf("body: op %d", t.op))
}

// String renders a term as a nested expression (for diagnostics; may be large).
func (t *Term) String() string {
	var sb strings.Builder
	t.str(&sb, 0)
	return sb.String()
}

func (t *Term) str(sb *strings.Builder, depth int) {
	if depth > 6 {
		sb.WriteString("...")
		return
	}
	switch t.op {
	case OpConst, OpFConst:
		sb.WriteString(t.ref())
		return
	case OpVar:
		sb.WriteString(t.name)
		return
	}
	sb.WriteString("(")
	if n, ok := opNames[t.op]; ok {
		sb.WriteString(n)
	} else {
		fmt.Fprintf(sb, "op%d", t.op)
	}
	for _, c := range []*Term{t.a, t.b, t.c} {
		if c != nil {
			sb.WriteString(" ")
			c.str(sb, depth+1)
		}
	}
	sb.WriteString(")")
}

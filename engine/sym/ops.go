package sym

// Operators (adapted from golang.org/x/tools/go/ssa/interp, BSD-style license, The Go Authors),
// extended to symbolic operands.

import (
	"fmt"
	"go/constant"
	"go/token"
	"go/types"
	"math"
	"os"
	"unicode/utf8"

	"golang.org/x/tools/go/ssa"
)

// If the target program panics, the interpreter panics with this type.
type targetPanic struct {
	v value
}

func (p targetPanic) String() string {
	return toString(p.v)
}

// rtPanic raises a Go run-time error inside the interpreted program.
func (in *interpreter) rtPanic(msg string) {
	panic(targetPanic{iface{in.runtimeErrorString, "runtime error: " + msg}})
}

func deref(t types.Type) types.Type {
	if p, ok := t.Underlying().(*types.Pointer); ok {
		return p.Elem()
	}
	panic(fmt.Sprintf("deref: %s is not a pointer", t))
}

// constValue returns the value of the constant with the dynamic type tag appropriate for c.Type().
func constValue(c *ssa.Const) value {
	if c.Value == nil {
		return zero(c.Type()) // typed zero
	}
	if t, ok := c.Type().Underlying().(*types.Basic); ok {
		switch t.Kind() {
		case types.Bool, types.UntypedBool:
			return constant.BoolVal(c.Value)
		case types.Int, types.UntypedInt:
			return int(c.Int64())
		case types.Int8:
			return int8(c.Int64())
		case types.Int16:
			return int16(c.Int64())
		case types.Int32, types.UntypedRune:
			return int32(c.Int64())
		case types.Int64:
			return c.Int64()
		case types.Uint:
			return uint(c.Uint64())
		case types.Uint8:
			return uint8(c.Uint64())
		case types.Uint16:
			return uint16(c.Uint64())
		case types.Uint32:
			return uint32(c.Uint64())
		case types.Uint64:
			return c.Uint64()
		case types.Uintptr:
			return uintptr(c.Uint64())
		case types.Float32:
			return float32(c.Float64())
		case types.Float64, types.UntypedFloat:
			return c.Float64()
		case types.Complex64:
			return complex64(c.Complex128())
		case types.Complex128, types.UntypedComplex:
			return c.Complex128()
		case types.String, types.UntypedString:
			if c.Value.Kind() == constant.String {
				return constant.StringVal(c.Value)
			}
			return string(rune(c.Int64()))
		}
	}
	panic(fmt.Sprintf("constValue: %s", c))
}

// asInt64 converts a concrete integer to int64.
func asInt64(x value) int64 {
	v, w, signed, ok := rawBits(x)
	if !ok {
		panic(fmt.Sprintf("cannot convert %T to int64", x))
	}
	if signed {
		return sext64(v, uint16(w))
	}
	return int64(v)
}

// zero returns a new "zero" value of the specified type.
func zero(t types.Type) value {
	switch t := t.(type) {
	case *types.Basic:
		if t.Kind() == types.UntypedNil {
			panic("untyped nil has no zero value")
		}
		if t.Info()&types.IsUntyped != 0 {
			t = types.Default(t).(*types.Basic)
		}
		switch t.Kind() {
		case types.Bool:
			return false
		case types.Int:
			return int(0)
		case types.Int8:
			return int8(0)
		case types.Int16:
			return int16(0)
		case types.Int32:
			return int32(0)
		case types.Int64:
			return int64(0)
		case types.Uint:
			return uint(0)
		case types.Uint8:
			return uint8(0)
		case types.Uint16:
			return uint16(0)
		case types.Uint32:
			return uint32(0)
		case types.Uint64:
			return uint64(0)
		case types.Uintptr:
			return uintptr(0)
		case types.Float32:
			return float32(0)
		case types.Float64:
			return float64(0)
		case types.Complex64:
			return complex64(0)
		case types.Complex128:
			return complex128(0)
		case types.String:
			return ""
		case types.UnsafePointer:
			return uptr{}
		default:
			panic(fmt.Sprint("zero for unexpected type:", t))
		}
	case *types.Pointer:
		return (*value)(nil)
	case *types.Array:
		a := make(array, t.Len())
		for i := range a {
			a[i] = zero(t.Elem())
		}
		return a
	case *types.Named:
		return zero(t.Underlying())
	case *types.Alias:
		return zero(types.Unalias(t))
	case *types.Interface:
		return iface{} // nil type, methodset and value
	case *types.Slice:
		return []value(nil)
	case *types.Struct:
		s := make(structure, t.NumFields())
		for i := range s {
			s[i] = zero(t.Field(i).Type())
		}
		return s
	case *types.Tuple:
		if t.Len() == 1 {
			return zero(t.At(0).Type())
		}
		s := make(tuple, t.Len())
		for i := range s {
			s[i] = zero(t.At(i).Type())
		}
		return s
	case *types.Chan:
		return (*chanv)(nil)
	case *types.Map:
		return (*omap)(nil)
	case *types.Signature:
		return (*ssa.Function)(nil)
	case *types.TypeParam:
		panic("zero: type parameter " + t.String())
	}
	panic(fmt.Sprint("zero: unexpected ", t))
}

// concInt turns an integer value (possibly symbolic) into a concrete int64 by forking over
// its feasible values.
func (fr *frame) concInt(x value) int64 {
	if t, ok := x.(*Term); ok {
		return fr.i.concretize(fr, t)
	}
	return asInt64(x)
}

// slice returns x[lo:hi:max].  Any of lo, hi and max may be nil.
func (fr *frame) slice(xt types.Type, x, lo, hi, max value) value {
	var Len, Cap int
	switch x := x.(type) {
	case string:
		Len = len(x)
		Cap = Len
	case symstr:
		Len = len(x)
		Cap = Len
	case []value:
		Len = len(x)
		Cap = cap(x)
	case *value: // *array
		if x == nil {
			fr.i.rtPanic("invalid memory address or nil pointer dereference")
		}
		a := (*x).(array)
		Len = len(a)
		Cap = cap(a)
	}

	// a window of constant width at a symbolic offset into a constant string (table lookups such
	// as "\\000\\001..."[b*4:b*4+4]): the result is built from selects instead of enumerating offsets
	if xs, isStr := x.(string); isStr && max == nil && Len <= 2048 {
		lt, ok1 := lo.(*Term)
		ht, ok2 := hi.(*Term)
		if ok1 && ok2 && lt.w == 64 && ht.w == 64 {
			k, ok := constWindow(lt, ht)
			if !ok && lt.op == OpZExt && ht.op == OpZExt && lt.a.w == ht.a.w {
				// narrow arithmetic (byte*4 : byte*4+4): constant width unless the narrow add wraps
				if kk, ok2 := constWindow(lt.a, ht.a); ok2 {
					in := fr.i
					w := int(lt.a.w)
					noWrap := in.ts.Cmp(OpUle, lt.a, in.ts.Const(w, (uint64(1)<<uint(w))-1-kk))
					if fr.decide(fromTermBool(noWrap)) {
						k, ok = kk, true
					}
				}
			}
			if ok && k > 0 && k <= 16 && int(k) <= Len {
				in := fr.i
				inb := in.ts.Cmp(OpUle, lt, in.ts.Const(64, uint64(Len-int(k))))
				if !fr.decide(fromTermBool(inb)) {
					in.rtPanic(fmt.Sprintf("slice bounds out of range [symbolic] with length %d", Len))
				}
				bs := strBytes(xs)
				out := make([]value, k)
				for i := range out {
					out[i] = in.selectElem(types.Typ[types.Uint8], bs, in.ts.Bin(OpAdd, lt, in.ts.Const(64, uint64(i))))
				}
				return mkString(out)
			}
		}
	}

	l := int64(0)
	if lo != nil {
		l = fr.concInt(lo)
	}
	h := int64(Len)
	if hi != nil {
		h = fr.concInt(hi)
	}
	m := int64(Cap)
	if max != nil {
		m = fr.concInt(max)
	}
	if _, isStr := x.(string); isStr {
		m = int64(Len)
	}
	if _, isStr := x.(symstr); isStr {
		m = int64(Len)
	}
	if l < 0 || h < l || m < h || m > int64(Cap) {
		fr.i.rtPanic(fmt.Sprintf("slice bounds out of range [%d:%d:%d] with capacity %d", l, h, m, Cap))
	}

	switch x := x.(type) {
	case string:
		return x[l:h]
	case symstr:
		return mkString([]value(x[l:h]))
	case []value:
		if h > int64(Len) {
			// materialise lazily allocated capacity
			if st, ok := xt.Underlying().(*types.Slice); ok {
				full := x[:h]
				for i := Len; i < int(h); i++ {
					if full[i] == nil {
						full[i] = zero(st.Elem())
					}
				}
			}
		}
		return x[l:h:m]
	case *value: // *array
		a := (*x).(array)
		if len(a) > 256 {
			if at, ok := deref(xt).Underlying().(*types.Array); ok {
				for i := l; i < h; i++ {
					if a[i] == nil {
						a[i] = zero(at.Elem())
					}
				}
			}
		}
		return []value(a)[l:h:m]
	}
	panic(fmt.Sprintf("slice: unexpected X type: %T", x))
}

// constWindow reports hi-lo when hi is syntactically lo plus a constant.
func constWindow(lo, hi *Term) (uint64, bool) {
	if hi.op == OpAdd {
		if hi.a == lo && hi.b.op == OpConst {
			return hi.b.k, true
		}
		if hi.b == lo && hi.a.op == OpConst {
			return hi.a.k, true
		}
	}
	return 0, false
}

// lookup returns x[idx] where x is a map.
func (fr *frame) lookup(instr *ssa.Lookup, x, idx value) value {
	switch x := x.(type) {
	case *omap:
		v, ok := x.lookup(fr, idx)
		if !ok {
			v = zero(instr.X.Type().Underlying().(*types.Map).Elem())
		} else {
			v = copyVal(v)
		}
		if instr.CommaOk {
			v = tuple{v, ok}
		}
		return v
	}
	panic(fmt.Sprintf("unexpected x type in Lookup: %T", x))
}

// mkLike builds a concrete integer of the same dynamic type as x.
func mkLike(x value, bits uint64) value {
	switch x.(type) {
	case bool:
		return bits != 0
	case int:
		return int(bits)
	case int8:
		return int8(bits)
	case int16:
		return int16(bits)
	case int32:
		return int32(bits)
	case int64:
		return int64(bits)
	case uint:
		return uint(bits)
	case uint8:
		return uint8(bits)
	case uint16:
		return uint16(bits)
	case uint32:
		return uint32(bits)
	case uint64:
		return bits
	case uintptr:
		return uintptr(bits)
	}
	panic(fmt.Sprintf("mkLike: %T", x))
}

var binOps = map[token.Token]Op{
	token.ADD: OpAdd, token.SUB: OpSub, token.MUL: OpMul, token.AND: OpAnd, token.OR: OpOr, token.XOR: OpXor,
}

// binop implements all arithmetic and logical binary operators for numeric datatypes and
// strings, on concrete and symbolic operands. t is the static type of x.
func (fr *frame) binop(op token.Token, t types.Type, x, y value) value {
	in := fr.i
	switch op {
	case token.EQL:
		return in.eqnil(t, x, y)
	case token.NEQ:
		return in.not(in.eqnil(t, x, y))
	}
	_, xsym := x.(*Term)
	_, ysym := y.(*Term)
	if xsym || ysym {
		return fr.symBinop(op, t, x, y)
	}
	// strings
	switch xs := x.(type) {
	case string:
		if ys, ok := y.(string); ok {
			switch op {
			case token.ADD:
				return xs + ys
			case token.LSS:
				return xs < ys
			case token.LEQ:
				return xs <= ys
			case token.GTR:
				return xs > ys
			case token.GEQ:
				return xs >= ys
			}
		} else {
			return fr.symStringOp(op, x, y)
		}
	case symstr:
		return fr.symStringOp(op, x, y)
	case float64:
		yf := y.(float64)
		switch op {
		case token.ADD:
			return xs + yf
		case token.SUB:
			return xs - yf
		case token.MUL:
			return xs * yf
		case token.QUO:
			return xs / yf
		case token.LSS:
			return xs < yf
		case token.LEQ:
			return xs <= yf
		case token.GTR:
			return xs > yf
		case token.GEQ:
			return xs >= yf
		}
	case float32:
		yf := y.(float32)
		switch op {
		case token.ADD:
			return xs + yf
		case token.SUB:
			return xs - yf
		case token.MUL:
			return xs * yf
		case token.QUO:
			return xs / yf
		case token.LSS:
			return xs < yf
		case token.LEQ:
			return xs <= yf
		case token.GTR:
			return xs > yf
		case token.GEQ:
			return xs >= yf
		}
	case complex128:
		yc := y.(complex128)
		switch op {
		case token.ADD:
			return xs + yc
		case token.SUB:
			return xs - yc
		case token.MUL:
			return xs * yc
		case token.QUO:
			return xs / yc
		}
	}
	// concrete integers
	xv, w, signed, ok := rawBits(x)
	if !ok {
		panic(fmt.Sprintf("invalid binary op: %T %s %T", x, op, y))
	}
	yv, yw, ysigned, ok := rawBits(y)
	if !ok {
		panic(fmt.Sprintf("invalid binary op: %T %s %T", x, op, y))
	}
	W := uint16(w)
	switch op {
	case token.ADD, token.SUB, token.MUL, token.AND, token.OR, token.XOR:
		return mkLike(x, foldBin(binOps[op], W, xv&mask(W), yv&mask(W)))
	case token.AND_NOT:
		return mkLike(x, xv&^yv)
	case token.QUO, token.REM:
		if yv&mask(W) == 0 {
			in.rtPanic("integer divide by zero")
		}
		var o Op
		switch {
		case op == token.QUO && signed:
			o = OpSDiv
		case op == token.QUO:
			o = OpUDiv
		case signed:
			o = OpSRem
		default:
			o = OpURem
		}
		return mkLike(x, foldBin(o, W, xv&mask(W), yv&mask(W)))
	case token.SHL, token.SHR:
		if ysigned && sext64(yv, uint16(yw)) < 0 {
			in.rtPanic("negative shift amount")
		}
		cnt := yv & mask(uint16(yw))
		if cnt > 64 {
			cnt = 64
		}
		o := OpShl
		if op == token.SHR {
			o = OpLShr
			if signed {
				o = OpAShr
			}
		}
		return mkLike(x, foldBin(o, W, xv&mask(W), cnt))
	case token.LSS, token.LEQ, token.GTR, token.GEQ:
		var r bool
		if signed {
			a, b := sext64(xv, W), sext64(yv, W)
			switch op {
			case token.LSS:
				r = a < b
			case token.LEQ:
				r = a <= b
			case token.GTR:
				r = a > b
			case token.GEQ:
				r = a >= b
			}
		} else {
			a, b := xv&mask(W), yv&mask(W)
			switch op {
			case token.LSS:
				r = a < b
			case token.LEQ:
				r = a <= b
			case token.GTR:
				r = a > b
			case token.GEQ:
				r = a >= b
			}
		}
		return r
	}
	panic(fmt.Sprintf("invalid binary op: %T %s %T", x, op, y))
}

// symBinop handles operations where at least one scalar operand is symbolic.
func (fr *frame) symBinop(op token.Token, t types.Type, x, y value) value {
	in := fr.i
	ts := in.ts
	b := basicOf(t)
	if b == nil {
		panic(fmt.Sprintf("symBinop: non-basic type %s", t))
	}
	if b.Info()&types.IsFloat != 0 {
		a, c := in.termOf(x), in.termOf(y)
		// float32 arithmetic: computed in float64 and rounded (exact for + - * /: 53 >= 2*24+2)
		rnd := func(r *Term) *Term {
			if b.Kind() == types.Float32 {
				return ts.FRound32(r)
			}
			return r
		}
		switch op {
		case token.ADD:
			return fromTerm(rnd(ts.FBin(OpFAdd, a, c)), t)
		case token.SUB:
			return fromTerm(rnd(ts.FBin(OpFSub, a, c)), t)
		case token.MUL:
			return fromTerm(rnd(ts.FBin(OpFMul, a, c)), t)
		case token.QUO:
			return fromTerm(rnd(ts.FBin(OpFDiv, a, c)), t)
		case token.LSS:
			return fromTermBool(ts.FCmp(OpFLt, a, c))
		case token.LEQ:
			return fromTermBool(ts.FCmp(OpFLe, a, c))
		case token.GTR:
			return fromTermBool(ts.FCmp(OpFLt, c, a))
		case token.GEQ:
			return fromTermBool(ts.FCmp(OpFLe, c, a))
		}
		panic("symBinop: float op " + op.String())
	}
	w, signed := intInfo(b.Kind())
	if w < 0 {
		panic(fmt.Sprintf("symBinop: type %s", t))
	}
	a := in.termOf(x)
	if w == SortBool {
		c := in.termOf(y)
		switch op {
		case token.AND, token.LAND:
			return fromTermBool(ts.BAnd(a, c))
		case token.OR, token.LOR:
			return fromTermBool(ts.BOr(a, c))
		}
		panic("symBinop: bool op " + op.String())
	}
	switch op {
	case token.SHL, token.SHR:
		// shift count has its own type
		var c *Term
		if yt, ok := y.(*Term); ok {
			c = yt
			// a signed symbolic count: negative panics
			if ysigned := fr.shiftCountSigned; ysigned {
				neg := ts.Cmp(OpSlt, c, ts.Const(int(c.w), 0))
				if fr.decide(fromTermBool(neg)) {
					in.rtPanic("negative shift amount")
				}
			}
		} else {
			yv, yw, ysigned, _ := rawBits(y)
			if ysigned && sext64(yv, uint16(yw)) < 0 {
				in.rtPanic("negative shift amount")
			}
			c = ts.Const(yw, yv)
		}
		o := OpShl
		if op == token.SHR {
			o = OpLShr
			if signed {
				o = OpAShr
			}
		}
		// bring the count to x's width
		var cw *Term
		var over *Term // count >= 2^w' not representable
		if int(c.w) <= w {
			cw = ts.ZExt(c, w)
			over = ts.False
		} else {
			cw = ts.Extract(c, w-1, 0)
			over = ts.BNot(ts.Eq(ts.Extract(c, int(c.w)-1, w), ts.Const(int(c.w)-w, 0)))
		}
		r := ts.Bin(o, a, cw)
		if over != ts.False {
			var big *Term
			if o == OpAShr {
				big = ts.Bin(OpAShr, a, ts.Const(w, uint64(w-1)))
			} else {
				big = ts.Const(w, 0)
			}
			r = ts.Ite(over, big, r)
		}
		return fromTerm(r, t)
	}
	c := in.termOf(y)
	if int(c.w) != w || int(a.w) != w {
		panic(fmt.Sprintf("symBinop: width mismatch %d/%d for %s (%s)", a.w, c.w, t, op))
	}
	switch op {
	case token.ADD, token.SUB, token.MUL, token.AND, token.OR, token.XOR:
		return fromTerm(ts.Bin(binOps[op], a, c), t)
	case token.AND_NOT:
		return fromTerm(ts.Bin(OpAnd, a, ts.Not(c)), t)
	case token.QUO, token.REM:
		isZero := fromTermBool(ts.Eq(c, ts.Const(w, 0)))
		if fr.decide(isZero) {
			in.rtPanic("integer divide by zero")
		}
		var o Op
		switch {
		case op == token.QUO && signed:
			o = OpSDiv
		case op == token.QUO:
			o = OpUDiv
		case signed:
			o = OpSRem
		default:
			o = OpURem
		}
		return fromTerm(ts.Bin(o, a, c), t)
	case token.LSS, token.LEQ, token.GTR, token.GEQ:
		lt, le := OpUlt, OpUle
		if signed {
			lt, le = OpSlt, OpSle
		}
		switch op {
		case token.LSS:
			return fromTermBool(ts.Cmp(lt, a, c))
		case token.LEQ:
			return fromTermBool(ts.Cmp(le, a, c))
		case token.GTR:
			return fromTermBool(ts.Cmp(lt, c, a))
		case token.GEQ:
			return fromTermBool(ts.Cmp(le, c, a))
		}
	}
	panic(fmt.Sprintf("symBinop: op %s on %s", op, t))
}

// symStringOp: +, <, <=, >, >= where at least one operand has symbolic bytes.
func (fr *frame) symStringOp(op token.Token, x, y value) value {
	in := fr.i
	xb, yb := strBytes(x), strBytes(y)
	switch op {
	case token.ADD:
		out := make([]value, 0, len(xb)+len(yb))
		out = append(out, xb...)
		out = append(out, yb...)
		return mkString(out)
	case token.LSS, token.LEQ, token.GTR, token.GEQ:
		if op == token.GTR || op == token.GEQ {
			xb, yb = yb, xb
		}
		// lexicographic xb < yb (or <=)
		n := len(xb)
		if len(yb) < n {
			n = len(yb)
		}
		var tail value
		if op == token.LSS || op == token.GTR {
			tail = len(xb) < len(yb)
		} else {
			tail = len(xb) <= len(yb)
		}
		acc := tail
		for i := n - 1; i >= 0; i-- {
			a, c := in.termOf(xb[i]), in.termOf(yb[i])
			lt := fromTermBool(in.ts.Cmp(OpUlt, a, c))
			eq := fromTermBool(in.ts.Eq(a, c))
			acc = in.or(lt, in.and(eq, acc))
		}
		return acc
	}
	panic("symStringOp: " + op.String())
}

// eqnil returns the comparison x == y using the equivalence relation appropriate for type t.
func (in *interpreter) eqnil(t types.Type, x, y value) value {
	switch t.Underlying().(type) {
	case *types.Map, *types.Signature, *types.Slice:
		// Since these types don't support comparison, one of the operands must be a literal nil.
		switch x := x.(type) {
		case *omap:
			return (x != nil) == (y.(*omap) != nil)
		case *ssa.Function:
			switch y := y.(type) {
			case *ssa.Function:
				return (x != nil) == (y != nil)
			case *closure, *nativeFn:
				return x != nil
			}
		case *closure:
			return (x != nil) == isNonNilFunc(y)
		case *nativeFn:
			return (x != nil) == isNonNilFunc(y)
		case []value:
			return (x != nil) == (y.([]value) != nil)
		}
		panic(fmt.Sprintf("eqnil(%s): illegal dynamic type: %T", t, x))
	}
	return in.equals(t, x, y)
}

func isNonNilFunc(y value) bool {
	switch y := y.(type) {
	case *ssa.Function:
		return y != nil
	case *closure:
		return y != nil
	case *nativeFn:
		return y != nil
	}
	return true
}

func (fr *frame) unop(instr *ssa.UnOp, x value) value {
	in := fr.i
	switch instr.Op {
	case token.ARROW: // receive
		return fr.chanRecv(instr, x.(*chanv))
	case token.SUB:
		switch x := x.(type) {
		case *Term:
			if x.w == SortFloat {
				return fromTerm(in.ts.FNeg(x), instr.Type())
			}
			return fromTerm(in.ts.Neg(x), instr.Type())
		case float32:
			return -x
		case float64:
			return -x
		case complex64:
			return -x
		case complex128:
			return -x
		}
		v, _, _, ok := rawBits(x)
		if ok {
			return mkLike(x, -v)
		}
	case token.MUL:
		return fr.loadPtr(deref(instr.X.Type()), x)
	case token.NOT:
		return in.not(x)
	case token.XOR:
		if xt, ok := x.(*Term); ok {
			return fromTerm(in.ts.Not(xt), instr.Type())
		}
		v, _, _, ok := rawBits(x)
		if ok {
			return mkLike(x, ^v)
		}
	}
	panic(fmt.Sprintf("invalid unary op %s %T", instr.Op, x))
}

// loadPtr loads through a pointer value (plain or symbolic-index).
func (fr *frame) loadPtr(T types.Type, p value) value {
	in := fr.i
	switch p := p.(type) {
	case *value:
		if p == nil {
			in.rtPanic("invalid memory address or nil pointer dereference")
		}
		if in.hb != nil {
			in.hbReadDeep(T, p)
		}
		return load(T, p)
	case symptr:
		return in.selectElem(T, p.base, p.idx)
	}
	panic(fmt.Sprintf("loadPtr: %T", p))
}

// storePtr stores through a pointer value.
func (fr *frame) storePtr(T types.Type, p value, v value) {
	in := fr.i
	switch p := p.(type) {
	case *value:
		if p == nil {
			in.rtPanic("invalid memory address or nil pointer dereference")
		}
		in.store(T, p, v)
	case symptr:
		vt := in.termOf(v)
		for i := range p.base {
			c := in.ts.Eq(p.idx, in.ts.Const(int(p.idx.w), uint64(i)))
			old := in.termOf(p.base[i])
			in.set(&p.base[i], fromTerm(in.ts.Ite(c, vt, old), T))
		}
	default:
		panic(fmt.Sprintf("storePtr: %T", p))
	}
}

// selectElem builds base[idx] as an ite chain (elements must be scalars).
func (in *interpreter) selectElem(T types.Type, base []value, idx *Term) value {
	n := len(base)
	if n == 0 {
		panic("selectElem: empty base")
	}
	// fast path: all elements identical concrete
	acc := in.termOf(base[n-1])
	for i := n - 2; i >= 0; i-- {
		e := in.termOf(base[i])
		if e == acc {
			continue
		}
		c := in.ts.Eq(idx, in.ts.Const(int(idx.w), uint64(i)))
		acc = in.ts.Ite(c, e, acc)
	}
	return fromTerm(acc, T)
}

func isScalarType(t types.Type) bool {
	b := basicOf(t)
	if b == nil {
		return false
	}
	w, _ := intInfo(b.Kind())
	return w >= 0
}

// typeAssert checks whether dynamic type of itf is instr.AssertedType.
func (fr *frame) typeAssert(instr *ssa.TypeAssert, itf iface) value {
	var v value
	err := ""
	if itf.t == nil {
		err = fmt.Sprintf("interface conversion: interface is nil, not %s", instr.AssertedType)
	} else if idst, ok := instr.AssertedType.Underlying().(*types.Interface); ok {
		v = itf
		err = checkInterface(idst, itf)
	} else if types.Identical(itf.t, instr.AssertedType) {
		v = itf.v // extract value
	} else {
		err = fmt.Sprintf("interface conversion: interface is %s, not %s", itf.t, instr.AssertedType)
	}
	if err != "" {
		if !instr.CommaOk {
			panic(targetPanic{iface{fr.i.runtimeErrorString, err}})
		}
		return tuple{zero(instr.AssertedType), false}
	}
	if instr.CommaOk {
		return tuple{v, true}
	}
	return v
}

// callBuiltin interprets a call to builtin fn with arguments args, returning its result.
func (fr *frame) callBuiltin(caller *frame, callpos token.Pos, fn *ssa.Builtin, args []value) value {
	in := fr.i
	switch fn.Name() {
	case "append":
		if len(args) == 1 {
			return args[0]
		}
		var add []value
		switch s := args[1].(type) {
		case string:
			add = strBytes(s)
		case symstr:
			add = []value(s)
		case []value:
			add = s
		}
		arg0 := args[0].([]value)
		if len(add) == 0 {
			return arg0
		}
		if len(arg0)+len(add) <= cap(arg0) {
			// in place: log overwritten cells
			dst := arg0[:len(arg0)+len(add)]
			for i, v := range add {
				in.set(&dst[len(arg0)+i], copyVal(v))
			}
			return dst
		}
		ncap := 2 * cap(arg0)
		if ncap < len(arg0)+len(add) {
			ncap = len(arg0) + len(add)
		}
		if ncap < 4 {
			ncap = 4
		}
		out := make([]value, len(arg0), ncap)
		copy(out, arg0)
		for _, v := range add {
			out = append(out, copyVal(v))
		}
		// spare capacity is materialised lazily (see frame.slice)
		return out

	case "copy": // copy([]T, []T) int or copy([]byte, string) int
		var src []value
		switch s := args[1].(type) {
		case string:
			src = strBytes(s)
		case symstr:
			src = []value(s)
		case []value:
			src = s
		}
		dst := args[0].([]value)
		n := len(src)
		if len(dst) < n {
			n = len(dst)
		}
		if n == 0 {
			return 0
		}
		// overlap-safe
		tmp := make([]value, n)
		for i := 0; i < n; i++ {
			tmp[i] = copyVal(src[i])
		}
		for i := 0; i < n; i++ {
			in.set(&dst[i], tmp[i])
		}
		return n

	case "close": // close(chan T)
		fr.chanClose(args[0].(*chanv))
		return nil

	case "delete": // delete(map[K]value, K)
		args[0].(*omap).delete(fr, args[1])
		return nil

	case "clear":
		switch m := args[0].(type) {
		case *omap:
			if m != nil {
				for _, e := range m.entries {
					if !e.dead {
						m.delete(fr, e.key)
					}
				}
			}
		case []value:
			et := fn.Type().(*types.Signature).Params().At(0).Type().Underlying().(*types.Slice).Elem()
			for i := range m {
				in.store(et, &m[i], zero(et))
			}
		}
		return nil

	case "print", "println": // print(any, ...)
		ln := fn.Name() == "println"
		var buf []byte
		for i, arg := range args {
			if i > 0 && ln {
				buf = append(buf, ' ')
			}
			buf = append(buf, toString(arg)...)
		}
		if ln {
			buf = append(buf, '\n')
		}
		os.Stderr.Write(buf)
		return nil

	case "len":
		switch x := args[0].(type) {
		case string:
			return len(x)
		case symstr:
			return len(x)
		case array:
			return len(x)
		case *value:
			return len((*x).(array))
		case []value:
			return len(x)
		case *omap:
			x.hbRead(caller)
			return x.len()
		case *chanv:
			if x == nil {
				return 0
			}
			return len(x.buf)
		default:
			panic(fmt.Sprintf("len: illegal operand: %T", x))
		}

	case "cap":
		switch x := args[0].(type) {
		case array:
			return cap(x)
		case *value:
			return cap((*x).(array))
		case []value:
			return cap(x)
		case *chanv:
			if x == nil {
				return 0
			}
			return x.cap
		default:
			panic(fmt.Sprintf("cap: illegal operand: %T", x))
		}

	case "min", "max":
		t := fn.Type().(*types.Signature).Params().At(0).Type()
		x := args[0]
		for _, y := range args[1:] {
			var lt value
			if fn.Name() == "min" {
				lt = fr.binop(token.LSS, t, y, x)
			} else {
				lt = fr.binop(token.GTR, t, y, x)
			}
			switch lt := lt.(type) {
			case bool:
				if lt {
					x = y
				}
			case *Term:
				x = fromTerm(in.ts.Ite(lt, in.termOf(y), in.termOf(x)), t)
			}
		}
		return x

	case "panic":
		panic(targetPanic{args[0]})

	case "recover":
		return doRecover(caller)

	case "ssa:wrapnilchk":
		recv := args[0]
		if p, ok := recv.(*value); ok && p == nil {
			recvType := args[1]
			methodName := args[2]
			in.rtPanic(fmt.Sprintf("value method (%s).%s called using nil *%s pointer",
				recvType, methodName, recvType))
		}
		return recv

	case "ssa:deferstack":
		return &caller.defers

	case "String": // unsafe.String(ptr *byte, len)
		n := fr.concInt(args[1])
		p := args[0].(*value)
		if n == 0 {
			return ""
		}
		sl := in.sliceFromElemPtr(fr, p, int(n))
		out := make([]value, n)
		copy(out, sl)
		return mkString(out)
	case "StringData":
		bs := strBytes(args[0])
		if len(bs) == 0 {
			return (*value)(nil)
		}
		in.elemOwner[&bs[0]] = bs
		return &bs[0]
	case "SliceData":
		s := args[0].([]value)
		if cap(s) == 0 {
			return (*value)(nil)
		}
		s = s[:cap(s)]
		in.elemOwner[&s[0]] = s
		return &s[0]
	case "Slice":
		n := fr.concInt(args[1])
		p := args[0].(*value)
		if p == nil {
			return []value(nil)
		}
		return in.sliceFromElemPtr(fr, p, int(n))
	}

	panic("unknown built-in: " + fn.Name())
}

// sliceFromElemPtr recovers the slice starting at element pointer p (registered by SliceData/StringData).
func (in *interpreter) sliceFromElemPtr(fr *frame, p *value, n int) []value {
	if s, ok := in.elemOwner[p]; ok {
		if n > len(s) {
			panic(engineError{"unsafe.Slice/String beyond the recorded backing array in " + fr.fn.String()})
		}
		return s[:n:n]
	}
	if n == 1 {
		// &x of a single cell: a one-element view
		return []value{*p}
	}
	panic(engineError{"unsafe.Slice/String on an unknown element pointer in " + fr.fn.String() + callerChain(fr.caller)})
}

type stringIter struct {
	s   value // string or symstr
	pos int
}

func (it *stringIter) next(fr *frame) tuple {
	n := strLen(it.s)
	if it.pos >= n {
		return tuple{false, nil, nil}
	}
	i := it.pos
	switch s := it.s.(type) {
	case string:
		r, sz := utf8.DecodeRuneInString(s[i:])
		it.pos += sz
		return tuple{true, i, r}
	case symstr:
		r, sz := fr.decodeRuneSym([]value(s[i:]))
		it.pos += sz
		return tuple{true, i, r}
	}
	panic("stringIter")
}

// decodeRuneSym decodes the first rune of a byte vector with symbolic bytes by running the
// interpreted unicode/utf8.DecodeRune on it.
func (fr *frame) decodeRuneSym(bs []value) (value, int) {
	if c, ok := bs[0].(uint8); ok && c < utf8.RuneSelf {
		return int32(c), 1
	}
	// all concrete prefix sufficient?
	allc := true
	lim := len(bs)
	if lim > 4 {
		lim = 4
	}
	buf := make([]byte, 0, 4)
	for _, b := range bs[:lim] {
		c, ok := b.(uint8)
		if !ok {
			allc = false
			break
		}
		buf = append(buf, c)
	}
	if allc {
		r, sz := utf8.DecodeRune(buf)
		return r, sz
	}
	fn := fr.i.lookupFunc("unicode/utf8", "DecodeRune")
	arg := make([]value, lim)
	copy(arg, bs[:lim])
	res := call(fr.i, fr, token.NoPos, fn, []value{arg}).(tuple)
	return res[0], int(asInt64(res[1]))
}

func (fr *frame) rangeIter(x value, t types.Type) iter {
	switch x := x.(type) {
	case *omap:
		x.hbRead(fr)
		return &omapIter{m: x}
	case string, symstr:
		return &stringIter{s: x}
	}
	panic(fmt.Sprintf("cannot range over %T", x))
}

// conv converts the value x of type t_src to type t_dst and returns the result.
func (fr *frame) conv(t_dst, t_src types.Type, x value) value {
	in := fr.i
	ut_src := t_src.Underlying()
	ut_dst := t_dst.Underlying()

	switch ut_src := ut_src.(type) {
	case *types.Pointer:
		if b, ok := ut_dst.(*types.Basic); ok && b.Kind() == types.UnsafePointer {
			return uptr{x}
		}
		if _, ok := ut_dst.(*types.Pointer); ok {
			return x
		}

	case *types.Slice:
		// []byte or []rune -> string
		switch ut_src.Elem().Underlying().(*types.Basic).Kind() {
		case types.Byte:
			xs := x.([]value)
			out := make([]value, len(xs))
			copy(out, xs)
			return mkString(out)
		case types.Rune:
			xs := x.([]value)
			var out []value
			for _, r := range xs {
				switch r := r.(type) {
				case int32:
					out = append(out, strBytes(string(r))...)
				default:
					out = append(out, fr.encodeRuneSym(r)...)
				}
			}
			return mkString(out)
		}

	case *types.Basic:
		if ut_src.Kind() == types.UnsafePointer {
			if u, ok := x.(uptr); ok {
				if _, ok := ut_dst.(*types.Pointer); ok {
					if u.p == nil {
						return zero(t_dst)
					}
					return u.p
				}
				if b, ok := ut_dst.(*types.Basic); ok {
					if b.Kind() == types.UnsafePointer {
						return u
					}
					if b.Kind() == types.Uintptr {
						if p, ok := u.p.(*value); ok && p != nil {
							return in.addrOf(p)
						}
						return uintptr(0)
					}
				}
			}
			return zero(t_dst)
		}
		// string -> []rune, []byte or string?
		switch s := x.(type) {
		case string, symstr:
			switch ut_dst := ut_dst.(type) {
			case *types.Slice:
				switch ut_dst.Elem().Underlying().(*types.Basic).Kind() {
				case types.Rune:
					var res []value
					it := &stringIter{s: s}
					for {
						t := it.next(fr)
						if !t[0].(bool) {
							break
						}
						res = append(res, t[2])
					}
					if res == nil {
						res = []value{}
					}
					return res
				case types.Byte:
					bs := strBytes(s)
					res := make([]value, len(bs))
					copy(res, bs)
					return res
				}
			case *types.Basic:
				if ut_dst.Kind() == types.String {
					return x
				}
			}
			panic(fmt.Sprintf("unsupported conversion: %s  -> %s", t_src, t_dst))
		}

		dstB, ok := ut_dst.(*types.Basic)
		if !ok {
			break
		}
		// integer -> string?
		if ut_src.Info()&types.IsInteger != 0 && dstB.Kind() == types.String {
			if xt, ok := x.(*Term); ok {
				_, signed := intInfo(ut_src.Kind())
				var r32 *Term
				if signed {
					r32 = in.ts.SExt(xt, 32)
				} else {
					r32 = in.ts.ZExt(xt, 32)
				}
				return mkString(fr.encodeRuneSym(fromTerm(r32, types.Typ[types.Int32])))
			}
			return string(rune(asInt64(x)))
		}
		if dstB.Kind() == types.UnsafePointer {
			// uintptr -> unsafe.Pointer
			return uptr{}
		}
		// numeric conversions
		if ut_src.Info()&types.IsNumeric != 0 && dstB.Info()&types.IsNumeric != 0 {
			return in.convNumeric(dstB, ut_src, x)
		}
	}

	panic(fmt.Sprintf("unsupported conversion: %s  -> %s, dynamic type %T", t_src, t_dst, x))
}

func (fr *frame) encodeRuneSym(r value) []value {
	if c, ok := r.(int32); ok {
		return strBytes(string(c))
	}
	fn := fr.i.lookupFunc("unicode/utf8", "AppendRune")
	res := call(fr.i, fr, token.NoPos, fn, []value{[]value(nil), r}).([]value)
	return res
}

func (in *interpreter) convNumeric(dst, src *types.Basic, x value) value {
	ts := in.ts
	sw, ssigned := intInfo(src.Kind())
	dw, dsigned := intInfo(dst.Kind())
	if xt, ok := x.(*Term); ok {
		switch {
		case xt.w == SortFloat && dw > 0:
			return fromTerm(ts.FToBV(xt, dw, dsigned), dst)
		case xt.w == SortFloat && dst.Kind() == types.Float32:
			// a symbolic float32 is kept as the float64 term of its exactly representable value
			return ts.FRound32(xt)
		case xt.w == SortFloat:
			return xt // float32 -> float64 is exact
		case dw > 0:
			var r *Term
			if dw <= sw {
				r = ts.Extract(xt, dw-1, 0)
			} else if ssigned {
				r = ts.SExt(xt, dw)
			} else {
				r = ts.ZExt(xt, dw)
			}
			return fromTerm(r, dst)
		case dst.Kind() == types.Float64 || dst.Kind() == types.Float32:
			if dst.Kind() == types.Float32 {
				panic(engineError{"symbolic float32 is not supported"})
			}
			return fromTerm(ts.FFromBV(xt, ssigned), dst)
		}
		panic(fmt.Sprintf("convNumeric: symbolic %s -> %s", src, dst))
	}
	// concrete
	switch xv := x.(type) {
	case float32:
		return convFloat(dst, float64(xv))
	case float64:
		return convFloat(dst, xv)
	case complex64:
		if dst.Kind() == types.Complex128 {
			return complex128(xv)
		}
		return xv
	case complex128:
		if dst.Kind() == types.Complex64 {
			return complex64(xv)
		}
		return xv
	}
	v, w, signed, ok := rawBits(x)
	if !ok {
		panic(fmt.Sprintf("convNumeric: %T", x))
	}
	var wide uint64
	if signed {
		wide = uint64(sext64(v, uint16(w)))
	} else {
		wide = v & mask(uint16(w))
	}
	switch dst.Kind() {
	case types.Float32:
		if signed {
			return float32(int64(wide))
		}
		return float32(wide)
	case types.Float64:
		if signed {
			return float64(int64(wide))
		}
		return float64(wide)
	case types.Complex128:
		return complex(float64(int64(wide)), 0)
	}
	return concreteOf(dst.Kind(), wide)
}

func convFloat(dst *types.Basic, f float64) value {
	switch dst.Kind() {
	case types.Float32:
		return float32(f)
	case types.Float64:
		return f
	case types.Int:
		return int(f)
	case types.Int8:
		return int8(f)
	case types.Int16:
		return int16(f)
	case types.Int32:
		return int32(f)
	case types.Int64:
		return int64(f)
	case types.Uint:
		return uint(f)
	case types.Uint8:
		return uint8(f)
	case types.Uint16:
		return uint16(f)
	case types.Uint32:
		return uint32(f)
	case types.Uint64:
		return uint64(f)
	case types.Uintptr:
		return uintptr(f)
	}
	panic("convFloat")
}

// sliceToArrayPointer converts the value x of type slice to type t_dst a pointer to array.
func (in *interpreter) sliceToArrayPointer(t_dst, t_src types.Type, x value) value {
	if _, ok := t_src.Underlying().(*types.Slice); ok {
		if ptr, ok := t_dst.Underlying().(*types.Pointer); ok {
			if arr, ok := ptr.Elem().Underlying().(*types.Array); ok {
				x := x.([]value)
				if arr.Len() > int64(len(x)) {
					in.rtPanic("cannot convert slice to array pointer: array length is greater than slice length")
				}
				if x == nil {
					return zero(t_dst)
				}
				v := value(array(x[:arr.Len()]))
				return &v
			}
		}
	}
	panic(fmt.Sprintf("unsupported conversion: %s  -> %s, dynamic type %T", t_src, t_dst, x))
}

// checkInterface checks that the method set of x implements the interface itype.
func checkInterface(itype *types.Interface, x iface) string {
	if meth, _ := types.MissingMethod(x.t, itype, true); meth != nil {
		return fmt.Sprintf("interface conversion: %v is not %v: missing method %s",
			x.t, itype, meth.Name())
	}
	return "" // ok
}

var _ = math.Abs

// hbReadDeep records a read of every leaf cell of the value of type T at p.
func (in *interpreter) hbReadDeep(T types.Type, p *value) {
	switch T := T.Underlying().(type) {
	case *types.Struct:
		if sv, ok := (*p).(structure); ok {
			for i := range sv {
				in.hbReadDeep(T.Field(i).Type(), &sv[i])
			}
			return
		}
	case *types.Array:
		if av, ok := (*p).(array); ok {
			for i := range av {
				if av[i] != nil {
					in.hbReadDeep(T.Elem(), &av[i])
				}
			}
			return
		}
	}
	in.hb.onRead(in, p)
}

package sym

// SSA interpreter core (adapted from golang.org/x/tools/go/ssa/interp, BSD-style license,
// The Go Authors): frames, instruction dispatch, calls, defer/panic/recover.

import (
	"fmt"
	"go/token"
	"go/types"
	"os"
	"slices"
	"strings"
	"sync"

	"golang.org/x/tools/go/ssa"
)

type continuation int

const (
	kNext continuation = iota
	kReturn
	kJump
)

type gcell struct {
	addr   *value
	poison string // non-empty: package init was skipped or failed
}

// interpreter is the state of one worker: heap, term store, solver, current path.
type interpreter struct {
	prog               *ssa.Program
	globals            map[*ssa.Global]*gcell
	runtimeErrorString types.Type
	ts                 *TermStore
	solver             *Solver
	cfg                *Config

	trail   []trailEntry
	trailOn bool
	hb      *hbState

	elemOwner map[*value][]value
	addrs     map[*value]uintptr
	nextAddr  uintptr

	subst      map[*ssa.Function]*ssa.Function
	funcCache  map[string]*ssa.Function
	entered    map[*ssa.Function]bool
	initPhase  bool
	initFailed map[*ssa.Package]string

	path  *pathState
	sched *scheduler

	steps     int64
	tracing   bool
	harnessFn *ssa.Function

	syncs      map[*value]*syncObj
	curFrame   *frame
	curPos     token.Pos
	curInitPkg *ssa.Package
	fmtSym     int
	clock      int64
	uniques    map[string]*value
	replayPos  int
	hangBound  int
	timers     map[*value]*timerState
}

// SSAFunc is exported for the driver.
type SSAFunc = ssa.Function

type deferred struct {
	fn    value
	args  []value
	instr *ssa.Defer
	tail  *deferred
}

type frame struct {
	i                *interpreter
	g                *goroutine
	caller           *frame
	fn               *ssa.Function
	block, prevBlock *ssa.BasicBlock
	env              []value // dynamic values of SSA variables, indexed by info.idx
	set              []bool
	info             *fnInfo
	locals           []value
	defers           *deferred
	result           value
	panicking        bool
	panic            interface{}
	phitemps         []value // temporaries for parallel phi assignment
	depth            int
	shiftCountSigned bool
	visits           map[*ssa.BasicBlock]int
}

func (fr *frame) get(key ssa.Value) value {
	switch key := key.(type) {
	case nil:
		return nil
	case *ssa.Function, *ssa.Builtin:
		return key
	case *ssa.Const:
		return constValue(key)
	case *ssa.Global:
		if r, ok := fr.i.globals[key]; ok {
			if r.poison != "" && !fr.i.initPhase {
				panic(engineError{fmt.Sprintf("read of poisoned global %s (%s) in %s", key, r.poison, fr.fn)})
			}
			return r.addr
		}
	}
	if i, ok := fr.info.idx[key]; ok {
		if r := fr.env[i]; r != nil || fr.set[i] {
			return r
		}
	}
	panic(fmt.Sprintf("get: no value for %T: %v in %s", key, key.Name(), fr.fn))
}

// isSentinel reports whether a Go panic value is an engine control-flow signal that must
// not be seen by the interpreted program.
func isSentinel(p interface{}) bool {
	switch p.(type) {
	case targetPanic:
		return false
	}
	return true
}

// runDefer runs a deferred call d. It always returns normally, but may set or clear fr.panic.
func (fr *frame) runDefer(d *deferred) {
	var ok bool
	defer func() {
		if !ok {
			p := recover()
			if isSentinel(p) {
				panic(p)
			}
			// Deferred call created a new state of panic.
			fr.panicking = true
			fr.panic = p
		}
	}()
	call(fr.i, fr, d.instr.Pos(), d.fn, d.args)
	ok = true
}

// runDefers executes fr's deferred function calls in LIFO order.
func (fr *frame) runDefers() {
	for d := fr.defers; d != nil; d = d.tail {
		fr.runDefer(d)
	}
	fr.defers = nil
	if fr.panicking {
		panic(fr.panic) // new panic, or still panicking
	}
}

// lookupMethod returns the method for dynamic type typ.
func lookupMethod(i *interpreter, typ types.Type, meth *types.Func) *ssa.Function {
	return i.prog.LookupMethod(typ, meth.Pkg(), meth.Name())
}

func isSignedType(t types.Type) bool {
	b := basicOf(t)
	if b == nil {
		return false
	}
	_, s := intInfo(b.Kind())
	return s
}

// visitInstr interprets a single ssa.Instruction within the activation record frame.
func visitInstr(fr *frame, instr ssa.Instruction) continuation {
	in := fr.i
	switch instr := instr.(type) {
	case *ssa.DebugRef:
		// no-op

	case *ssa.UnOp:
		fr.setv(instr, fr.unop(instr, fr.get(instr.X)))

	case *ssa.BinOp:
		if instr.Op == token.SHL || instr.Op == token.SHR {
			fr.shiftCountSigned = isSignedType(instr.Y.Type())
		}
		fr.setv(instr, fr.binop(instr.Op, instr.X.Type(), fr.get(instr.X), fr.get(instr.Y)))

	case *ssa.Call:
		fn, args := prepareCall(fr, &instr.Call)
		fr.setv(instr, call(fr.i, fr, instr.Pos(), fn, args))

	case *ssa.ChangeInterface:
		fr.setv(instr, fr.get(instr.X))

	case *ssa.ChangeType:
		fr.setv(instr, fr.get(instr.X)) // (can't fail)

	case *ssa.Convert:
		fr.setv(instr, fr.conv(instr.Type(), instr.X.Type(), fr.get(instr.X)))

	case *ssa.SliceToArrayPointer:
		fr.setv(instr, in.sliceToArrayPointer(instr.Type(), instr.X.Type(), fr.get(instr.X)))

	case *ssa.MakeInterface:
		fr.setv(instr, iface{t: instr.X.Type(), v: fr.get(instr.X)})

	case *ssa.Extract:
		fr.setv(instr, fr.get(instr.Tuple).(tuple)[instr.Index])

	case *ssa.Slice:
		fr.setv(instr, fr.slice(instr.X.Type(), fr.get(instr.X), fr.getIdx(instr.Low), fr.getIdx(instr.High), fr.getIdx(instr.Max)))

	case *ssa.Return:
		switch len(instr.Results) {
		case 0:
		case 1:
			fr.result = fr.get(instr.Results[0])
		default:
			var res []value
			for _, r := range instr.Results {
				res = append(res, fr.get(r))
			}
			fr.result = tuple(res)
		}
		fr.block = nil
		return kReturn

	case *ssa.RunDefers:
		fr.runDefers()

	case *ssa.Panic:
		panic(targetPanic{fr.get(instr.X)})

	case *ssa.Send:
		fr.chanSend(fr.get(instr.Chan).(*chanv), fr.get(instr.X))

	case *ssa.Store:
		fr.storePtr(deref(instr.Addr.Type()), fr.get(instr.Addr), fr.get(instr.Val))

	case *ssa.If:
		succ := 1
		if fr.decide(fr.get(instr.Cond)) {
			succ = 0
		}
		fr.prevBlock, fr.block = fr.block, fr.block.Succs[succ]
		return kJump

	case *ssa.Jump:
		fr.prevBlock, fr.block = fr.block, fr.block.Succs[0]
		return kJump

	case *ssa.Defer:
		fn, args := prepareCall(fr, &instr.Call)
		defers := &fr.defers
		if into := fr.get(instr.DeferStack); into != nil {
			defers = into.(**deferred)
		}
		*defers = &deferred{
			fn:    fn,
			args:  args,
			instr: instr,
			tail:  *defers,
		}

	case *ssa.Go:
		fn, args := prepareCall(fr, &instr.Call)
		in.spawn(fr, fn, args, instr.Pos())

	case *ssa.MakeChan:
		fr.setv(instr, in.makeChan(int(fr.concInt(fr.getIdx(instr.Size))), instr.Type().Underlying().(*types.Chan).Elem()))

	case *ssa.Alloc:
		var addr *value
		if instr.Heap {
			// new
			addr = new(value)
			fr.setv(instr, addr)
		} else {
			// local
			addr = fr.getv(instr).(*value)
		}
		if os.Getenv("GOSYM_DEBUG") == "alloc" {
			if at, ok := deref(instr.Type()).Underlying().(*types.Array); ok && at.Len() > 1000 {
				fmt.Fprintf(os.Stderr, "big alloc %s in %s\n", at, fr.fn)
			}
		}
		if at, ok := deref(instr.Type()).Underlying().(*types.Array); ok && at.Len() > 256 {
			// big arrays are zeroed lazily, element by element, on first access
			*addr = make(array, at.Len())
		} else {
			*addr = zero(deref(instr.Type()))
		}

	case *ssa.MakeSlice:
		c := fr.concInt(fr.getIdx(instr.Cap))
		l := fr.concInt(fr.getIdx(instr.Len))
		if l < 0 || c < l || c > 1<<26 {
			in.rtPanic("makeslice: len out of range")
		}
		// elements beyond len are materialised lazily (see frame.slice)
		slice := make([]value, c)
		tElt := instr.Type().Underlying().(*types.Slice).Elem()
		for i := int64(0); i < l; i++ {
			slice[i] = zero(tElt)
		}
		fr.setv(instr, slice[:l])

	case *ssa.MakeMap:
		fr.setv(instr, makeMap(instr.Type().Underlying().(*types.Map).Key()))

	case *ssa.Range:
		fr.setv(instr, fr.rangeIter(fr.get(instr.X), instr.X.Type()))

	case *ssa.Next:
		fr.setv(instr, fr.get(instr.Iter).(iter).next(fr))

	case *ssa.FieldAddr:
		p := fr.get(instr.X).(*value)
		if p == nil {
			in.rtPanic("invalid memory address or nil pointer dereference")
		}
		fr.setv(instr, &(*p).(structure)[instr.Field])

	case *ssa.Field:
		fr.setv(instr, fr.get(instr.X).(structure)[instr.Field])

	case *ssa.IndexAddr:
		x := fr.get(instr.X)
		idx := fr.get(instr.Index)
		var base []value
		switch x := x.(type) {
		case []value:
			base = x
		case *value: // *array
			if x == nil {
				in.rtPanic("invalid memory address or nil pointer dereference")
			}
			base = (*x).(array)
		default:
			panic(fmt.Sprintf("unexpected x type in IndexAddr: %T", x))
		}
		ea := fr.elemAddr(base, idx, instr.Index.Type(), deref(instr.Type()))
		if ep, ok := ea.(*value); ok && len(base) > 0 && ep == &base[0] && in.trailOn {
			if _, isByte := base[0].(uint8); isByte || isSym(base[0]) {
				in.elemOwner[ep] = base[:cap(base)]
			}
		}
		fr.setv(instr, ea)

	case *ssa.Index:
		x := fr.get(instr.X)
		idx := fr.get(instr.Index)
		switch x := x.(type) {
		case array:
			p := fr.elemAddr(x, idx, instr.Index.Type(), instr.Type())
			fr.setv(instr, copyVal(fr.loadPtr(instr.Type(), p)))
		case string:
			if it, ok := idx.(*Term); ok {
				bs := strBytes(x)
				it = fr.boundsCheck(it, instr.Index.Type(), len(bs))
				fr.setv(instr, in.selectElem(types.Typ[types.Uint8], bs, it))
			} else {
				k := asInt64(idx)
				if k < 0 || k >= int64(len(x)) {
					in.rtPanic(fmt.Sprintf("index out of range [%d] with length %d", k, len(x)))
				}
				fr.setv(instr, x[k])
			}
		case symstr:
			if it, ok := idx.(*Term); ok {
				it = fr.boundsCheck(it, instr.Index.Type(), len(x))
				fr.setv(instr, in.selectElem(types.Typ[types.Uint8], []value(x), it))
			} else {
				k := asInt64(idx)
				if k < 0 || k >= int64(len(x)) {
					in.rtPanic(fmt.Sprintf("index out of range [%d] with length %d", k, len(x)))
				}
				fr.setv(instr, x[k])
			}
		default:
			panic(fmt.Sprintf("unexpected x type in Index: %T", x))
		}

	case *ssa.Lookup:
		x := fr.get(instr.X)
		switch xs := x.(type) {
		case string, symstr:
			// string indexing
			idx := fr.get(instr.Index)
			bs := strBytes(xs)
			if it, ok := idx.(*Term); ok {
				it = fr.boundsCheck(it, instr.Index.Type(), len(bs))
				fr.setv(instr, in.selectElem(types.Typ[types.Uint8], bs, it))
			} else {
				k := asInt64(idx)
				if k < 0 || k >= int64(len(bs)) {
					in.rtPanic(fmt.Sprintf("index out of range [%d] with length %d", k, len(bs)))
				}
				fr.setv(instr, bs[k])
			}
		default:
			fr.setv(instr, fr.lookup(instr, x, fr.get(instr.Index)))
		}

	case *ssa.MapUpdate:
		m := fr.get(instr.Map).(*omap)
		if m == nil {
			panic(targetPanic{iface{in.runtimeErrorString, "assignment to entry in nil map"}})
		}
		m.insert(fr, fr.get(instr.Key), copyVal(fr.get(instr.Value)))

	case *ssa.TypeAssert:
		fr.setv(instr, fr.typeAssert(instr, fr.get(instr.X).(iface)))

	case *ssa.MakeClosure:
		var bindings []value
		for _, binding := range instr.Bindings {
			bindings = append(bindings, fr.get(binding))
		}
		fr.setv(instr, &closure{instr.Fn.(*ssa.Function), bindings})

	case *ssa.Phi:
		panic("unreachable: phis are processed at block entry")

	case *ssa.Select:
		fr.setv(instr, fr.doSelect(instr))

	default:
		panic(fmt.Sprintf("unexpected instruction: %T", instr))
	}
	return kNext
}

// getIdx reads an integer operand used as an index, length or capacity; a symbolic one is widened
// to 64 bits according to its static type (an unsigned byte index must not be sign-extended).
func (fr *frame) getIdx(v ssa.Value) value {
	if v == nil {
		return nil
	}
	x := fr.get(v)
	if t, ok := x.(*Term); ok {
		return fr.widenIndex(t, v.Type())
	}
	return x
}

// widenIndex extends a symbolic index to 64 bits according to its static type.
func (fr *frame) widenIndex(idx *Term, idxType types.Type) *Term {
	if idx.w == 64 {
		return idx
	}
	if isSignedType(idxType) {
		return fr.i.ts.SExt(idx, 64)
	}
	return fr.i.ts.ZExt(idx, 64)
}

// boundsCheck forks on 0 <= idx < n and panics (in the target) on the out-of-range side.
// It returns the index widened to 64 bits.
func (fr *frame) boundsCheck(idx *Term, idxType types.Type, n int) *Term {
	in := fr.i
	ts := in.ts
	w := fr.widenIndex(idx, idxType)
	ok := ts.Cmp(OpUlt, w, ts.Const(64, uint64(n)))
	if !fr.decide(fromTermBool(ok)) {
		in.rtPanic(fmt.Sprintf("index out of range [symbolic] with length %d", n))
	}
	return w
}

// elemAddr computes &base[idx].
func (fr *frame) elemAddr(base []value, idx value, idxType types.Type, elemType types.Type) value {
	in := fr.i
	if it, ok := idx.(*Term); ok {
		it = fr.boundsCheck(it, idxType, len(base))
		if isScalarType(elemType) && len(base) <= 512 {
			for i := range base {
				if base[i] == nil {
					base[i] = zero(elemType)
				}
			}
			if len(base) == 1 {
				return &base[0]
			}
			return symptr{base: base, idx: it}
		}
		k := in.concretize(fr, it)
		if base[k] == nil {
			base[k] = zero(elemType)
		}
		return &base[k]
	}
	k := asInt64(idx)
	if k < 0 || k >= int64(len(base)) {
		in.rtPanic(fmt.Sprintf("index out of range [%d] with length %d", k, len(base)))
	}
	if base[k] == nil {
		base[k] = zero(elemType)
	}
	return &base[k]
}

// prepareCall determines the function value and argument values for a function call.
func prepareCall(fr *frame, call *ssa.CallCommon) (fn value, args []value) {
	v := fr.get(call.Value)
	if call.Method == nil {
		// Function call.
		fn = v
	} else {
		// Interface method invocation.
		recv := v.(iface)
		if recv.t == nil {
			fr.i.rtPanic("invalid memory address or nil pointer dereference (method invoked on nil interface)")
		}
		if f := lookupMethod(fr.i, recv.t, call.Method); f == nil {
			panic(fmt.Sprintf("method set for dynamic type %v does not contain %s", recv.t, call.Method))
		} else {
			fn = f
		}
		args = append(args, recv.v)
	}
	for _, arg := range call.Args {
		args = append(args, fr.get(arg))
	}
	return
}

// call interprets a call to a function (function, builtin or closure).
func call(i *interpreter, caller *frame, callpos token.Pos, fn value, args []value) value {
	switch fn := fn.(type) {
	case *ssa.Function:
		if fn == nil {
			i.rtPanic("invalid memory address or nil pointer dereference (call of nil function)")
		}
		return callSSA(i, caller, callpos, fn, args, nil)
	case *closure:
		return callSSA(i, caller, callpos, fn.Fn, args, fn.Env)
	case *ssa.Builtin:
		return caller.callBuiltin(caller, callpos, fn, args)
	case *nativeFn:
		return fn.fn(caller, args)
	}
	panic(fmt.Sprintf("cannot call %T", fn))
}

func loc(fset *token.FileSet, pos token.Pos) string {
	if pos == token.NoPos {
		return ""
	}
	return " at " + fset.Position(pos).String()
}

// callSSA interprets a call to function fn with arguments args and lexical environment env.
func callSSA(i *interpreter, caller *frame, callpos token.Pos, fn *ssa.Function, args []value, env []value) value {
	if s, ok := i.subst[fn]; ok {
		fn = s
	}
	if i.initPhase && i.isForeignPkgInit(fn) {
		return nil
	}
	if fn.Pkg != nil && noopPkgs[fn.Pkg.Pkg.Path()] {
		return zeroResults(fn)
	}
	fr := &frame{
		i:      i,
		caller: caller, // for panic/recover
		fn:     fn,
	}
	if caller != nil {
		fr.depth = caller.depth + 1
		fr.g = caller.g
		if fr.depth > i.cfg.MaxDepth {
			panic(engineError{fmt.Sprintf("call depth bound %d exceeded in %s", i.cfg.MaxDepth, fn)})
		}
	}
	if i.tracing {
		fmt.Fprintf(os.Stderr, "%sEntering %s\n", strings.Repeat(" ", fr.depth%60), fn)
	}
	if fn.Parent() == nil {
		name := fn.String()
		if ext := externals[name]; ext != nil {
			if r := ext(fr, args); r != (useBody{}) {
				return r
			}
		}
		if strings.HasPrefix(name, "unique.Make[") {
			return extUniqueMake(fr, args)
		}
		if fn.Blocks == nil {
			if ext := externalFallback(fn); ext != nil {
				return ext(fr, args)
			}
			panic(engineError{"no code for function: " + name + callerChain(caller)})
		}
	}
	if !i.initPhase {
		i.entered[fn] = true
	}

	// generic function body?
	if fn.TypeParams().Len() > 0 && len(fn.TypeArgs()) == 0 {
		panic("interp requires ssa.BuilderMode to include InstantiateGenerics to execute generics")
	}

	fr.info = i.infoFor(fn)
	fr.env = make([]value, fr.info.n)
	fr.set = make([]bool, fr.info.n)
	fr.block = fn.Blocks[0]
	fr.locals = make([]value, len(fn.Locals))
	for i, l := range fn.Locals {
		fr.locals[i] = zero(deref(l.Type()))
		fr.setv(l, &fr.locals[i])
	}
	for i, p := range fn.Params {
		fr.setv(p, args[i])
	}
	for i, fv := range fn.FreeVars {
		fr.setv(fv, env[i])
	}
	for fr.block != nil {
		runFrame(fr)
	}
	return fr.result
}

func callerChain(fr *frame) string {
	var sb strings.Builder
	for n := 0; fr != nil && n < 12; n++ {
		sb.WriteString("\n    called from ")
		sb.WriteString(fr.fn.String())
		fr = fr.caller
	}
	return sb.String()
}

// runFrame executes SSA instructions starting at fr.block and continuing until a return, a
// panic, or a recovered panic.
func runFrame(fr *frame) {
	defer func() {
		if fr.block == nil {
			return // normal return
		}
		p := recover()
		if isSentinel(p) {
			panic(p)
		}
		fr.panicking = true
		fr.panic = p
		fr.runDefers()
		fr.block = fr.fn.Recover
		if fr.block == nil {
			// recovered in a function without named results: return zero values
			if res := fr.fn.Signature.Results(); res.Len() > 0 {
				fr.result = zero(res)
			}
		}
	}()

	in := fr.i
	for {
		if fr.block.Index < len(fr.fn.Blocks) && len(fr.block.Preds) > 1 {
			if fr.visits == nil {
				fr.visits = make(map[*ssa.BasicBlock]int)
			}
			fr.visits[fr.block]++
			if in.hangBound > 0 && !in.initPhase && fr.visits[fr.block] > in.hangBound && (fr.info == nil || !fr.info.harness) {
				panic(pathEnd{kind: endHang, msg: fmt.Sprintf("no progress: a loop in %s made more than %d iterations", fr.fn, in.hangBound)})
			}
			if !in.initPhase && fr.visits[fr.block] > in.cfg.MaxLoop {
				panic(engineError{fmt.Sprintf("loop bound %d exceeded in %s block %d", in.cfg.MaxLoop, fr.fn, fr.block.Index)})
			}
		}
		nonPhis := executePhis(fr)
		for _, instr := range nonPhis {
			in.steps++
			if in.hb != nil || forkProfile {
				in.curFrame = fr
				if instr.Pos().IsValid() {
					in.curPos = instr.Pos()
				}
			}
			if in.steps > in.cfg.MaxSteps && !in.initPhase {
				panic(engineError{fmt.Sprintf("path step bound %d exceeded in %s", in.cfg.MaxSteps, fr.fn)})
			}
			if in.tracing {
				if v, ok := instr.(ssa.Value); ok {
					fmt.Fprintln(os.Stderr, "\t", v.Name(), "=", instr)
				} else {
					fmt.Fprintln(os.Stderr, "\t", instr)
				}
			}
			if visitInstr(fr, instr) == kReturn {
				return
			}
		}
	}
}

// executePhis executes the phi-nodes at the start of the current block and returns the
// non-phi instructions.
func executePhis(fr *frame) []ssa.Instruction {
	firstNonPhi := -1
	for i, instr := range fr.block.Instrs {
		if _, ok := instr.(*ssa.Phi); !ok {
			firstNonPhi = i
			break
		}
	}
	nonPhis := fr.block.Instrs[firstNonPhi:]
	if firstNonPhi > 0 {
		phis := fr.block.Instrs[:firstNonPhi]
		predIndex := slices.Index(fr.block.Preds, fr.prevBlock)
		fr.phitemps = fr.phitemps[:0]
		for _, phi := range phis {
			phi := phi.(*ssa.Phi)
			fr.phitemps = append(fr.phitemps, fr.get(phi.Edges[predIndex]))
		}
		for i, phi := range phis {
			fr.setv(phi.(*ssa.Phi), fr.phitemps[i])
		}
	}
	return nonPhis
}

// doRecover implements the recover() built-in.
func doRecover(caller *frame) value {
	// recover() must be exactly one level beneath the deferred function (two levels beneath
	// the panicking function) to have any effect.
	if caller != nil && !caller.panicking &&
		caller.caller != nil && caller.caller.panicking {
		caller.caller.panicking = false
		p := caller.caller.panic
		caller.caller.panic = nil
		switch p := p.(type) {
		case targetPanic:
			return p.v
		default:
			panic(fmt.Sprintf("unexpected panic type %T in target call to recover()", p))
		}
	}
	return iface{}
}

func (in *interpreter) lookupFunc(pkgPath, name string) *ssa.Function {
	key := pkgPath + "." + name
	if f, ok := in.funcCache[key]; ok {
		return f
	}
	pkg := in.prog.ImportedPackage(pkgPath)
	if pkg == nil {
		panic(engineError{"package not loaded: " + pkgPath})
	}
	f := pkg.Func(name)
	if f == nil {
		panic(engineError{"function not found: " + key})
	}
	in.funcCache[key] = f
	return f
}

// addrOf returns a stable fake address for a cell.
func (in *interpreter) addrOf(p *value) uintptr {
	if a, ok := in.addrs[p]; ok {
		return a
	}
	in.nextAddr += 64
	in.addrs[p] = 0xc000000000 + in.nextAddr
	return in.addrs[p]
}

// findMethod returns the exported method name of dynamic type T, or nil.
func (in *interpreter) findMethod(T types.Type, name string) *ssa.Function {
	if T == nil {
		return nil
	}
	if _, ok := T.Underlying().(*types.Interface); ok {
		return nil
	}
	sel := in.prog.MethodSets.MethodSet(T).Lookup(nil, name)
	if sel == nil {
		return nil
	}
	return in.prog.MethodValue(sel)
}

// fnInfo numbers the SSA values of a function (shared, built once per function).
type fnInfo struct {
	idx     map[ssa.Value]int
	n       int
	harness bool // defined in a zz_verif_* file (models and harness code are not race-tracked)
}

var fnInfos sync.Map // *ssa.Function -> *fnInfo

func (in *interpreter) infoFor(fn *ssa.Function) *fnInfo {
	if v, ok := fnInfos.Load(fn); ok {
		return v.(*fnInfo)
	}
	info := &fnInfo{idx: make(map[ssa.Value]int)}
	if pos := fn.Pos(); pos.IsValid() {
		file := in.prog.Fset.Position(pos).Filename
		if i := strings.LastIndex(file, "/"); i >= 0 {
			file = file[i+1:]
		}
		info.harness = strings.HasPrefix(file, "zz_verif")
	} else if p := fn.Parent(); p != nil {
		info.harness = in.infoFor(p).harness
	}
	add := func(v ssa.Value) {
		if _, ok := info.idx[v]; !ok {
			info.idx[v] = info.n
			info.n++
		}
	}
	for _, p := range fn.Params {
		add(p)
	}
	for _, fv := range fn.FreeVars {
		add(fv)
	}
	for _, l := range fn.Locals {
		add(l)
	}
	for _, b := range fn.Blocks {
		for _, instr := range b.Instrs {
			if v, ok := instr.(ssa.Value); ok {
				add(v)
			}
		}
	}
	act, _ := fnInfos.LoadOrStore(fn, info)
	return act.(*fnInfo)
}

func (fr *frame) setv(k ssa.Value, v value) {
	i := fr.info.idx[k]
	fr.env[i] = v
	fr.set[i] = true
}

func (fr *frame) getv(k ssa.Value) value {
	return fr.env[fr.info.idx[k]]
}

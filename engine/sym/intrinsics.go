package sym

// Intrinsics: functions implemented by the engine (assembly-backed std functions, the
// runtime/reflect boundary, environment). Each is the documented semantics of what it replaces.

import (
	"fmt"
	"go/token"
	"go/types"
	"math"
	"strings"

	"golang.org/x/tools/go/ssa"
)

type externalFn func(fr *frame, args []value) value

// useBody is returned by an intrinsic that declines: the function's SSA body runs instead.
type useBody struct{}

var externals = make(map[string]externalFn)

// noopPkgs: logging packages — every function returns zero values.
var noopPkgs = map[string]bool{
	"github.com/golang/glog":            true,
	"log":                               true,
	"github.com/sirupsen/logrus":        true,
	"github.com/coredns/coredns/plugin/pkg/log": true,
	"log/slog":                          true,
}

// externalFallback handles body-less functions by package-level rules.
func externalFallback(fn *ssa.Function) externalFn {
	if fn.Pkg != nil && fn.Pkg.Pkg.Path() == "math" {
		if f, ok := mathFuncs[strings.TrimPrefix(fn.Name(), "arch")]; ok {
			return func(fr *frame, args []value) value {
				x, ok := args[0].(float64)
				if !ok {
					panic(engineError{"math." + fn.Name() + " on a symbolic argument"})
				}
				return f(x)
			}
		}
	}
	return nil
}

var mathFuncs = map[string]func(float64) float64{
	"Floor": math.Floor, "Ceil": math.Ceil, "Trunc": math.Trunc, "Sqrt": math.Sqrt, "Abs": math.Abs,
	"Exp": math.Exp, "Log": math.Log, "Log2": math.Log2, "Log10": math.Log10, "Exp2": math.Exp2,
	"sqrt": math.Sqrt, "floor": math.Floor, "ceil": math.Ceil, "trunc": math.Trunc,
}

func zeroResults(fn *ssa.Function) value {
	res := fn.Signature.Results()
	if res.Len() == 0 {
		return nil
	}
	return zero(res)
}

// byteEq returns s[i] == c as bool-or-term.
func (in *interpreter) byteEq(a, b value) value {
	if x, ok := a.(uint8); ok {
		if y, ok := b.(uint8); ok {
			return x == y
		}
	}
	return in.eqTerms(in.termOf(a), in.termOf(b))
}

func seqBytes(x value) []value {
	switch x := x.(type) {
	case []value:
		return x
	case string, symstr:
		return strBytes(x)
	}
	panic(fmt.Sprintf("seqBytes: %T", x))
}

func extIndexByte(fr *frame, args []value) value {
	s := seqBytes(args[0])
	for i := range s {
		if fr.decide(fr.i.byteEq(s[i], args[1])) {
			return i
		}
	}
	return -1
}

func extLastIndexByte(fr *frame, args []value) value {
	s := seqBytes(args[0])
	for i := len(s) - 1; i >= 0; i-- {
		if fr.decide(fr.i.byteEq(s[i], args[1])) {
			return i
		}
	}
	return -1
}

func extCountByte(fr *frame, args []value) value {
	s := seqBytes(args[0])
	n := 0
	for i := range s {
		if fr.decide(fr.i.byteEq(s[i], args[1])) {
			n++
		}
	}
	return n
}

func extBytesEqual(fr *frame, args []value) value {
	a, b := seqBytes(args[0]), seqBytes(args[1])
	if len(a) != len(b) {
		return false
	}
	var acc value = true
	for i := range a {
		acc = fr.i.and(acc, fr.i.byteEq(a[i], b[i]))
		if acc == false {
			return false
		}
	}
	return acc
}

// extBytesCompare builds the three-way comparison as one term (no fork per byte).
func extBytesCompare(fr *frame, args []value) value {
	a, b := seqBytes(args[0]), seqBytes(args[1])
	in := fr.i
	ts := in.ts
	n := len(a)
	if len(b) < n {
		n = len(b)
	}
	tail := 0
	switch {
	case len(a) < len(b):
		tail = -1
	case len(a) > len(b):
		tail = 1
	}
	// concrete prefix fast path
	i := 0
	for ; i < n; i++ {
		x, okx := a[i].(uint8)
		y, oky := b[i].(uint8)
		if !okx || !oky {
			break
		}
		if x != y {
			if x < y {
				return -1
			}
			return 1
		}
	}
	if i == n {
		return tail
	}
	acc := ts.Const(64, uint64(int64(tail)))
	for j := n - 1; j >= i; j-- {
		x, y := in.termOf(a[j]), in.termOf(b[j])
		if x == y {
			continue
		}
		lt := ts.Cmp(OpUlt, x, y)
		gt := ts.Cmp(OpUlt, y, x)
		acc = ts.Ite(lt, ts.Const(64, ^uint64(0)), ts.Ite(gt, ts.Const(64, 1), acc))
	}
	return fromTerm(acc, types.Typ[types.Int])
}

// extIndex: first index of sep in s (byte sequences), -1 if absent.
func extIndex(fr *frame, args []value) value {
	s, sep := seqBytes(args[0]), seqBytes(args[1])
	in := fr.i
	n := len(sep)
	if n == 0 {
		return 0
	}
	for i := 0; i+n <= len(s); i++ {
		var acc value = true
		for j := 0; j < n; j++ {
			acc = in.and(acc, in.byteEq(s[i+j], sep[j]))
			if acc == false {
				break
			}
		}
		if fr.decide(acc) {
			return i
		}
	}
	return -1
}

func extMakeNoZero(fr *frame, args []value) value {
	n := fr.concInt(args[0])
	out := make([]value, n)
	for i := range out {
		out[i] = uint8(0)
	}
	return out
}

// ---- strings.Builder (unsafe inside) ----

func extBuilderString(fr *frame, args []value) value {
	b := (*args[0].(*value)).(structure)
	// fields: addr *Builder, buf []byte
	buf := b[1].([]value)
	out := make([]value, len(buf))
	copy(out, buf)
	return mkString(out)
}

// ---- math bits ----

func extFloat64bits(fr *frame, args []value) value {
	switch x := args[0].(type) {
	case float64:
		return math.Float64bits(x)
	case *Term:
		if x.op == OpFFromUBV || x.op == OpFFromSBV {
			panic(engineError{"math.Float64bits of a symbolic float"})
		}
	}
	panic(engineError{"math.Float64bits of a symbolic float"})
}

func extFloat64frombits(fr *frame, args []value) value {
	if x, ok := args[0].(uint64); ok {
		return math.Float64frombits(x)
	}
	panic(engineError{"math.Float64frombits of a symbolic value"})
}

func extFloat32bits(fr *frame, args []value) value {
	return math.Float32bits(args[0].(float32))
}

func extFloat32frombits(fr *frame, args []value) value {
	return math.Float32frombits(args[0].(uint32))
}

// ---- runtime / os / time ----

func extNop(fr *frame, args []value) value { return zeroResults(fr.fn) }

func extGOMAXPROCS(fr *frame, args []value) value { return 4 }
func extNumCPU(fr *frame, args []value) value     { return 4 }

func extGosched(fr *frame, args []value) value {
	fr.i.schedPoint(fr)
	return nil
}

func extGetenv(fr *frame, args []value) value {
	name, _ := args[0].(string)
	return fr.i.cfg.Env[name]
}

func extLookupEnv(fr *frame, args []value) value {
	name, _ := args[0].(string)
	v, ok := fr.i.cfg.Env[name]
	return tuple{v, ok}
}

// time.now: a deterministic clock advancing 1ms per reading (harnesses substitute their own).
func extTimeNow(fr *frame, args []value) value {
	in := fr.i
	in.clock += 1_000_000
	sec := int64(1_700_000_000) + in.clock/1_000_000_000
	return tuple{sec, int32(in.clock % 1_000_000_000), in.clock}
}

func extRuntimeNano(fr *frame, args []value) value {
	fr.i.clock += 1_000_000
	return fr.i.clock
}

func extSleep(fr *frame, args []value) value {
	if d, ok := args[0].(int64); ok && d > 0 {
		fr.i.clock += d
	}
	fr.i.schedPoint(fr)
	return nil
}

func extCaller(fr *frame, args []value) value {
	return tuple{uintptr(0), "?", 0, false}
}

func extCallers(fr *frame, args []value) value { return 0 }

// ---- godebug ----

func extGodebugValue(fr *frame, args []value) value { return "" }

// ---- unique.Make ----

func extUniqueMake(fr *frame, args []value) value {
	in := fr.i
	k, ok := canonKey(args[0])
	if !ok {
		panic(engineError{"unique.Make on a value with symbolic parts"})
	}
	key := fr.fn.String() + "|" + k
	p, ok := in.uniques[key]
	if !ok {
		cell := copyVal(args[0])
		p = &cell
		if in.uniques == nil {
			in.uniques = make(map[string]*value)
		}
		in.uniques[key] = p
	}
	// Handle[T]{value *T}
	return structure{p}
}

// ---- reflectlite / errors ----

func (in *interpreter) rtypeIface(pkgPath string, t types.Type) value {
	pkg := in.prog.ImportedPackage(pkgPath)
	if pkg == nil {
		panic(engineError{"package not loaded: " + pkgPath})
	}
	rt := pkg.Type("rtype")
	if rt == nil {
		panic(engineError{pkgPath + ".rtype not found"})
	}
	return iface{t: types.NewPointer(rt.Type()), v: rtype{t}}
}

func extReflectliteTypeOf(fr *frame, args []value) value {
	x := args[0].(iface)
	if x.t == nil {
		return iface{}
	}
	return fr.i.rtypeIface("internal/reflectlite", x.t)
}

func extRtypeComparable(fr *frame, args []value) value {
	return types.Comparable(args[0].(rtype).t)
}

func extRtypeString(fr *frame, args []value) value {
	return args[0].(rtype).t.String()
}

// reflectlite.ValueOf: a Value whose ptr field carries the boxed interface.
func extReflectliteValueOf(fr *frame, args []value) value {
	st := fr.fn.Signature.Results().At(0).Type().Underlying().(*types.Struct)
	v := zero(st).(structure)
	v[1] = uptr{args[0]}
	return v
}

func rvPayload(v value) iface {
	return v.(structure)[1].(uptr).p.(iface)
}

func extReflectliteValueLen(fr *frame, args []value) value {
	x := rvPayload(args[0])
	switch s := x.v.(type) {
	case []value:
		return len(s)
	case string:
		return len(s)
	case symstr:
		return len(s)
	case array:
		return len(s)
	case *omap:
		return s.len()
	}
	panic(engineError{fmt.Sprintf("reflectlite.Value.Len on %T", x.v)})
}

func extSwapper(fr *frame, args []value) value {
	x := args[0].(iface)
	s, ok := x.v.([]value)
	if !ok {
		panic(targetPanic{iface{fr.i.runtimeErrorString, "reflect: call of Swapper on non-slice"}})
	}
	et := x.t.Underlying().(*types.Slice).Elem()
	in := fr.i
	return &nativeFn{name: "swapper", fn: func(fr *frame, args []value) value {
		i, j := fr.concInt(args[0]), fr.concInt(args[1])
		a, b := copyVal(load(et, &s[i])), copyVal(load(et, &s[j]))
		in.store(et, &s[i], b)
		in.store(et, &s[j], a)
		return nil
	}}
}

// unwrapErr calls Unwrap() error if present.
func (fr *frame) unwrapErr(e iface) (iface, []value, bool) {
	in := fr.i
	if e.t == nil {
		return iface{}, nil, false
	}
	m := in.findMethod(e.t, "Unwrap")
	if m == nil {
		return iface{}, nil, false
	}
	res := m.Signature.Results()
	if res.Len() != 1 || m.Signature.Params().Len() != 0 {
		return iface{}, nil, false
	}
	r := call(in, fr, token.NoPos, m, []value{e.v})
	if _, ok := res.At(0).Type().Underlying().(*types.Slice); ok {
		return iface{}, r.([]value), true
	}
	if it, ok := r.(iface); ok {
		return it, nil, true
	}
	return iface{}, nil, false
}

func extErrorsIs(fr *frame, args []value) value {
	err, target := args[0].(iface), args[1].(iface)
	if err.t == nil || target.t == nil {
		return err.t == nil && target.t == nil
	}
	return fr.errIs(err, target, 0)
}

func (fr *frame) errIs(err, target iface, depth int) bool {
	in := fr.i
	if depth > 64 {
		panic(engineError{"errors.Is: unwrap chain too deep"})
	}
	for {
		if err.t == nil {
			return false
		}
		if types.Comparable(target.t) && sameType(err.t, target.t) {
			if fr.decide(in.equals(err.t, err.v, target.v)) {
				return true
			}
		}
		if m := in.findMethod(err.t, "Is"); m != nil && m.Signature.Params().Len() == 1 && m.Signature.Results().Len() == 1 {
			if b := basicOf(m.Signature.Results().At(0).Type()); b != nil && b.Kind() == types.Bool {
				if fr.decide(call(in, fr, token.NoPos, m, []value{err.v, target})) {
					return true
				}
			}
		}
		next, many, ok := fr.unwrapErr(err)
		if !ok {
			return false
		}
		if many != nil {
			for _, e := range many {
				if fr.errIs(e.(iface), target, depth+1) {
					return true
				}
			}
			return false
		}
		err = next
		depth++
		if depth > 64 {
			panic(engineError{"errors.Is: unwrap chain too deep"})
		}
	}
}

func extErrorsAs(fr *frame, args []value) value {
	in := fr.i
	err, target := args[0].(iface), args[1].(iface)
	if err.t == nil {
		return false
	}
	if target.t == nil {
		panic(targetPanic{iface{in.runtimeErrorString, "errors: target cannot be nil"}})
	}
	pt, ok := target.t.Underlying().(*types.Pointer)
	if !ok {
		panic(targetPanic{iface{in.runtimeErrorString, "errors: target must be a non-nil pointer"}})
	}
	T := pt.Elem()
	cell := target.v.(*value)
	return fr.errAs(err, T, cell, 0)
}

func (fr *frame) errAs(err iface, T types.Type, cell *value, depth int) bool {
	in := fr.i
	for ; depth < 64; depth++ {
		if err.t == nil {
			return false
		}
		if it, ok := T.Underlying().(*types.Interface); ok {
			if types.Implements(err.t, it) {
				in.store(T, cell, err)
				return true
			}
		} else if types.Identical(err.t, T) {
			in.store(T, cell, err.v)
			return true
		}
		if m := in.findMethod(err.t, "As"); m != nil && m.Signature.Params().Len() == 1 {
			if fr.decide(call(in, fr, token.NoPos, m, []value{err.v, iface{t: types.NewPointer(T), v: cell}})) {
				return true
			}
		}
		next, many, ok := fr.unwrapErr(err)
		if !ok {
			return false
		}
		if many != nil {
			for _, e := range many {
				if fr.errAs(e.(iface), T, cell, depth+1) {
					return true
				}
			}
			return false
		}
		err = next
	}
	panic(engineError{"errors.As: unwrap chain too deep"})
}

// extCIDRMask: net.CIDRMask with a symbolic prefix length builds the mask bytes as terms
// (no path split per length); concrete arguments run the real code.
func extCIDRMask(fr *frame, args []value) value {
	in := fr.i
	ts := in.ts
	ot, ok := args[0].(*Term)
	if !ok {
		return useBody{}
	}
	bits, ok := args[1].(int)
	if !ok {
		return useBody{}
	}
	if bits != 32 && bits != 128 {
		return []value(nil)
	}
	inRange := ts.Cmp(OpUle, ot, ts.Const(64, uint64(bits))) // negative values are huge unsigned
	if !fr.decide(fromTermBool(inRange)) {
		return []value(nil)
	}
	l := bits / 8
	m := make([]value, l)
	for i := 0; i < l; i++ {
		// rem = ones - 8*i ; byte = rem>=8 ? 0xff : rem<=0 ? 0 : ^(0xff >> rem)
		rem := ts.Bin(OpSub, ot, ts.Const(64, uint64(8*i)))
		ge8 := ts.Cmp(OpSle, ts.Const(64, 8), rem)
		le0 := ts.Cmp(OpSle, rem, ts.Const(64, 0))
		sh := ts.Extract(ts.Bin(OpAnd, rem, ts.Const(64, 7)), 7, 0)
		part := ts.Not(ts.Bin(OpLShr, ts.Const(8, 0xff), sh))
		b := ts.Ite(ge8, ts.Const(8, 0xff), ts.Ite(le0, ts.Const(8, 0), part))
		m[i] = byteVal(b)
	}
	return m
}

// extIPMaskSize: (net.IPMask).Size on a mask with symbolic bytes returns the prefix length as
// a term when the mask is canonical (forks on canonicity; non-canonical => 0,0 as the real code).
func extIPMaskSize(fr *frame, args []value) value {
	in := fr.i
	ts := in.ts
	m, ok := args[0].([]value)
	if !ok {
		return useBody{}
	}
	sym := false
	for _, b := range m {
		if _, ok := b.(*Term); ok {
			sym = true
		}
	}
	if !sym {
		return useBody{}
	}
	canon := ts.True
	total := ts.Const(64, 0)
	allOnesSoFar := ts.True
	vals := []uint64{0x00, 0x80, 0xc0, 0xe0, 0xf0, 0xf8, 0xfc, 0xfe, 0xff}
	for _, bv := range m {
		b := in.termOf(bv)
		n := ts.Const(64, 0)
		valid := ts.False
		for k, v := range vals {
			is := ts.Eq(b, ts.Const(8, v))
			n = ts.Ite(is, ts.Const(64, uint64(k)), n)
			valid = ts.BOr(valid, is)
		}
		// after a byte that is not 0xff every byte must be 0
		isZero := ts.Eq(b, ts.Const(8, 0))
		canon = ts.BAnd(canon, ts.BAnd(valid, ts.BOr(allOnesSoFar, isZero)))
		allOnesSoFar = ts.BAnd(allOnesSoFar, ts.Eq(b, ts.Const(8, 0xff)))
		total = ts.Bin(OpAdd, total, n)
	}
	if !fr.decide(fromTermBool(canon)) {
		return tuple{0, 0}
	}
	return tuple{fromTerm(total, types.Typ[types.Int]), len(m) * 8}
}

// ---- timers: time.AfterFunc / (*time.Timer).Stop ----
//
// A timer is an environment goroutine that, at a moment chosen by the scheduler, either fires
// (calls f) or never does; Stop prevents a firing that has not started.

type timerState struct {
	stopped bool
	fired   bool
}

func extAfterFunc(fr *frame, args []value) value {
	in := fr.i
	f := args[1]
	tt := fr.fn.Signature.Results().At(0).Type() // *time.Timer
	cell := zero(deref(tt))
	p := &cell
	st := &timerState{}
	if in.timers == nil {
		in.timers = make(map[*value]*timerState)
	}
	in.timers[p] = st
	if d, ok := args[0].(int64); ok && d >= int64(3600e9) {
		// a timer of an hour or more does not fire within the horizon of a path
		return p
	}
	body := &nativeFn{name: "timer", fn: func(fr2 *frame, _ []value) value {
		if in.path.choice(in, 2, "timer") == 1 {
			return nil // never fires within the horizon of this path
		}
		if st.stopped {
			return nil
		}
		st.fired = true
		call(in, fr2, token.NoPos, f, nil)
		return nil
	}}
	in.spawn(fr, body, nil, token.NoPos)
	return p
}

func extTimerStop(fr *frame, args []value) value {
	in := fr.i
	p, _ := args[0].(*value)
	st := in.timers[p]
	if st == nil {
		return false
	}
	was := !st.stopped && !st.fired
	st.stopped = true
	return was
}

func init() {
	for k, v := range map[string]externalFn{
		"time.AfterFunc":                   extAfterFunc,
		"(*time.Timer).Stop":               extTimerStop,
		"net.CIDRMask":                     extCIDRMask,
		"(net.IPMask).Size":                extIPMaskSize,
		"internal/bytealg.IndexByte":       extIndexByte,
		"internal/bytealg.IndexByteString": extIndexByte,
		"internal/bytealg.LastIndexByte":   extLastIndexByte,
		"internal/bytealg.LastIndexByteString": extLastIndexByte,
		"internal/bytealg.Count":           extCountByte,
		"internal/bytealg.CountString":     extCountByte,
		"internal/bytealg.Equal":           extBytesEqual,
		"internal/bytealg.Compare":         extBytesCompare,
		"internal/bytealg.Index":           extIndex,
		"internal/bytealg.IndexString":     extIndex,
		"internal/bytealg.MakeNoZero":      extMakeNoZero,
		"internal/stringslite.Index":       extIndex,
		"internal/stringslite.IndexByte":   extIndexByte,
		"strings.Index":                    extIndex,
		"bytes.Index":                      extIndex,
		"bytes.Equal":                      extBytesEqual,
		"bytes.Compare":                    extBytesCompare,
		"strings.Compare":                  extBytesCompare,
		"strings.IndexByte":                extIndexByte,
		"bytes.IndexByte":                  extIndexByte,
		"(*strings.Builder).String":        extBuilderString,
		"math.Float64bits":                 extFloat64bits,
		"math.Float64frombits":             extFloat64frombits,
		"math.Float32bits":                 extFloat32bits,
		"math.Float32frombits":             extFloat32frombits,
		"runtime.GOMAXPROCS":               extGOMAXPROCS,
		"runtime.NumCPU":                   extNumCPU,
		"runtime.Gosched":                  extGosched,
		"runtime.KeepAlive":                extNop,
		"runtime.SetFinalizer":             extNop,
		"runtime.GC":                       extNop,
		"runtime.Caller":                   extCaller,
		"runtime.Callers":                  extCallers,
		"runtime.Stack":                    extCallers,
		"os.Getenv":                        extGetenv,
		"os.LookupEnv":                     extLookupEnv,
		"syscall.Getenv":                   extLookupEnv,
		"time.now":                         extTimeNow,
		"time.runtimeNano":                 extRuntimeNano,
		"time.Sleep":                       extSleep,
		"(*internal/godebug.Setting).Value":         extGodebugValue,
		"(*internal/godebug.Setting).IncNonDefault": extNop,
		"internal/reflectlite.TypeOf":               extReflectliteTypeOf,
		"(*internal/reflectlite.rtype).Comparable":  extRtypeComparable,
		"(*internal/reflectlite.rtype).String":      extRtypeString,
		"internal/reflectlite.ValueOf":              extReflectliteValueOf,
		"(internal/reflectlite.Value).Len":          extReflectliteValueLen,
		"internal/reflectlite.Swapper":              extSwapper,
		"reflect.Swapper":                           extSwapper,
		"errors.Is":                                 extErrorsIs,
		"errors.As":                                 extErrorsAs,

		"(*sync.Mutex).Lock":      extMutexLock,
		"(*sync.Mutex).TryLock":   extMutexTryLock,
		"(*sync.Mutex).Unlock":    extMutexUnlock,
		"(*sync.RWMutex).Lock":    extMutexLock,
		"(*sync.RWMutex).TryLock": extMutexTryLock,
		"(*sync.RWMutex).Unlock":  extMutexUnlock,
		"(*sync.RWMutex).RLock":   extRWMutexRLock,
		"(*sync.RWMutex).RUnlock": extRWMutexRUnlock,
		"(*sync.WaitGroup).Add":   extWaitGroupAdd,
		"(*sync.WaitGroup).Done":  extWaitGroupDone,
		"(*sync.WaitGroup).Wait":  extWaitGroupWait,
		"(*sync.Pool).Get":        extPoolGet,
		"(*sync.Pool).Put":        extPoolPut,
		"(*sync/atomic.Value).Load":  extAtomicValueLoad,
		"(*sync/atomic.Value).Store": extAtomicValueStore,
	} {
		externals[k] = v
	}
	for _, t := range []string{"Int32", "Int64", "Uint32", "Uint64", "Uintptr", "Pointer"} {
		externals["sync/atomic.Load"+t] = extAtomicLoad
		externals["sync/atomic.Store"+t] = extAtomicStore
		externals["sync/atomic.Swap"+t] = extAtomicSwap
		externals["sync/atomic.CompareAndSwap"+t] = extAtomicCAS
		if t != "Pointer" {
			externals["sync/atomic.Add"+t] = extAtomicAdd
			externals["sync/atomic.And"+t] = extAtomicAnd
			externals["sync/atomic.Or"+t] = extAtomicOr
		}
	}
	for _, t := range []string{"", "64", "uintptr", "8", "int32", "int64", "p"} {
		_ = t
	}
	for _, n := range []string{"Load", "Load64", "Loaduintptr", "Loaduint", "Loadint32", "Loadint64", "LoadAcq", "LoadAcq64", "Loadp", "Load8"} {
		externals["internal/runtime/atomic."+n] = extAtomicLoad
	}
	for _, n := range []string{"Store", "Store64", "Storeuintptr", "Storeint32", "Storeint64", "StoreRel", "StoreRel64", "Store8", "StorepNoWB"} {
		externals["internal/runtime/atomic."+n] = extAtomicStore
	}
	for _, n := range []string{"Xadd", "Xadd64", "Xadduintptr", "Xaddint32", "Xaddint64"} {
		externals["internal/runtime/atomic."+n] = extAtomicAdd
	}
	for _, n := range []string{"Cas", "Cas64", "Casuintptr", "Casint32", "Casint64", "CasRel", "Casp1"} {
		externals["internal/runtime/atomic."+n] = extAtomicCAS
	}
	for _, n := range []string{"Xchg", "Xchg64", "Xchguintptr", "Xchgint32", "Xchgint64"} {
		externals["internal/runtime/atomic."+n] = extAtomicSwap
	}
}

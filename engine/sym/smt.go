package sym

// SMT solver layer: one long-lived solver process per worker, SMT-LIB2 text over a pipe.

import (
	"bufio"
	"fmt"
	"io"
	"os"
	"os/exec"
	"strconv"
	"strings"
	"time"
)

type Result int

const (
	Unsat Result = iota
	Sat
	Unknown
)

func (r Result) String() string {
	switch r {
	case Unsat:
		return "unsat"
	case Sat:
		return "sat"
	}
	return "unknown"
}

type SolverStats struct {
	Queries   int
	Sat       int
	Unsat     int
	Unknown   int
	Fallbacks int
	Time      time.Duration
	MaxQuery  time.Duration
}

// Solver drives one `z3 -in` process. Definitions are global (survive push/pop),
// assertions are scoped.
type Solver struct {
	name      string
	args      []string
	cmd       *exec.Cmd
	in        io.WriteCloser
	out       *bufio.Reader
	defined   map[*Term]bool
	ndefs     int
	level     int
	timeoutMs int
	Stats     SolverStats
	log       io.Writer
	asserted  []*Term // current path assertions (for fallback scripts)
	store     *TermStore
}

func NewSolver(store *TermStore, timeoutMs int, which string) (*Solver, error) {
	s := &Solver{name: solverBin(), args: []string{"-in"}, timeoutMs: timeoutMs, store: store}
	if which == "cvc5" {
		s.name = "cvc5"
		s.args = []string{"--incremental", "--produce-models", fmt.Sprintf("--tlimit-per=%d", timeoutMs), "--lang=smt2"}
	}
	if p := os.Getenv("GOSYM_SMTLOG"); p != "" {
		f, _ := os.Create(p)
		s.log = f
	}
	if err := s.start(); err != nil {
		return nil, err
	}
	return s, nil
}

func (s *Solver) start() error {
	s.cmd = exec.Command(s.name, s.args...)
	in, err := s.cmd.StdinPipe()
	if err != nil {
		return err
	}
	out, err := s.cmd.StdoutPipe()
	if err != nil {
		return err
	}
	s.cmd.Stderr = os.Stderr
	if err := s.cmd.Start(); err != nil {
		return err
	}
	s.in = in
	s.out = bufio.NewReaderSize(out, 1<<16)
	s.defined = make(map[*Term]bool)
	s.ndefs = 0
	s.level = 0
	s.asserted = nil
	if s.name == "cvc5" {
		s.send("(set-logic ALL)\n(set-option :global-declarations true)\n")
	} else {
		s.send("(set-option :global-declarations true)\n")
		s.send(fmt.Sprintf("(set-option :timeout %d)\n", s.timeoutMs))
	}
	return nil
}

func (s *Solver) Close() {
	if s.cmd != nil {
		s.in.Close()
		s.cmd.Process.Kill()
		s.cmd.Wait()
		s.cmd = nil
	}
}

func (s *Solver) restart() {
	s.Close()
	if err := s.start(); err != nil {
		panic(engineError{"cannot restart solver: " + err.Error()})
	}
}

func (s *Solver) send(str string) {
	if s.log != nil {
		io.WriteString(s.log, str)
	}
	if _, err := io.WriteString(s.in, str); err != nil {
		panic(engineError{"solver pipe write: " + err.Error()})
	}
}

func (s *Solver) readLine() string {
	line, err := s.out.ReadString('\n')
	if err != nil {
		panic(engineError{"solver pipe read: " + err.Error()})
	}
	return strings.TrimSpace(line)
}

// define emits definitions for t and its undefined sub-terms (iteratively, post-order).
func (s *Solver) define(t *Term) {
	if s.defined[t] || t.op == OpConst || t.op == OpFConst {
		return
	}
	var sb strings.Builder
	stack := []*Term{t}
	for len(stack) > 0 {
		n := stack[len(stack)-1]
		if s.defined[n] || n.op == OpConst || n.op == OpFConst {
			stack = stack[:len(stack)-1]
			continue
		}
		pushed := false
		for _, c := range [3]*Term{n.a, n.b, n.c} {
			if c != nil && !s.defined[c] && c.op != OpConst && c.op != OpFConst {
				stack = append(stack, c)
				pushed = true
			}
		}
		if pushed {
			continue
		}
		stack = stack[:len(stack)-1]
		if n.op == OpVar {
			fmt.Fprintf(&sb, "(declare-const %s %s)\n", n.ref(), sortString(n.w))
		} else {
			fmt.Fprintf(&sb, "(define-fun %s () %s %s)\n", n.ref(), sortString(n.w), n.body())
		}
		s.defined[n] = true
		s.ndefs++
	}
	if sb.Len() > 0 {
		s.send(sb.String())
	}
}

// BeginPath opens the assertion scope of one path.
func (s *Solver) BeginPath() {
	if s.ndefs > 300000 {
		s.restart()
	}
	s.send("(push 1)\n")
	s.level = 1
	s.asserted = s.asserted[:0]
}

// EndPath drops all assertions of the path.
func (s *Solver) EndPath() {
	if s.level > 0 {
		s.send(fmt.Sprintf("(pop %d)\n", s.level))
		s.level = 0
	}
	s.asserted = s.asserted[:0]
}

// Assert adds t to the path condition.
func (s *Solver) Assert(t *Term) {
	if t.op == OpConst {
		if t.k != 0 {
			return
		}
	}
	s.define(t)
	s.send(fmt.Sprintf("(assert %s)\n", t.ref()))
	s.asserted = append(s.asserted, t)
}

// Check decides satisfiability of pathcond ∧ extra. If wantModel and the result is
// Sat the model of all variables occurring in defined terms is returned.
func (s *Solver) Check(extra *Term, wantModel bool) (Result, Model) {
	if extra != nil && extra.op == OpConst {
		if extra.k == 0 {
			return Unsat, nil
		}
		extra = nil
	}
	start := time.Now()
	if extra != nil {
		s.define(extra)
		s.send(fmt.Sprintf("(push 1)\n(assert %s)\n", extra.ref()))
	}
	s.send("(check-sat)\n")
	res := s.readResult()
	var model Model
	if res == Sat && wantModel {
		model = s.getModel()
	}
	if extra != nil {
		s.send("(pop 1)\n")
	}
	d := time.Since(start)
	if d > slowThreshold || res == Unknown {
		if dir := os.Getenv("GOSYM_SLOWDIR"); dir != "" {
			s.dumpQuery(dir, extra, d, res)
		}
	}
	if res == Unknown {
		// fall back to the other solvers on a one-shot script
		r2, m2 := s.fallback(extra, wantModel)
		s.Stats.Fallbacks++
		res, model = r2, m2
		d = time.Since(start)
	}
	s.Stats.Queries++
	s.Stats.Time += d
	if d > s.Stats.MaxQuery {
		s.Stats.MaxQuery = d
	}
	switch res {
	case Sat:
		s.Stats.Sat++
	case Unsat:
		s.Stats.Unsat++
	default:
		s.Stats.Unknown++
	}
	return res, model
}

func (s *Solver) readResult() Result {
	for {
		line := s.readLine()
		switch {
		case line == "sat":
			return Sat
		case line == "unsat":
			return Unsat
		case line == "unknown" || line == "timeout":
			return Unknown
		case strings.HasPrefix(line, "(error"):
			panic(engineError{"solver error: " + line})
		case line == "":
			continue
		default:
			panic(engineError{"unexpected solver output: " + line})
		}
	}
}

func (s *Solver) getModel() Model {
	vars := s.store.vars
	m := make(Model, len(vars))
	var names []*Term
	var sb strings.Builder
	sb.WriteString("(get-value (")
	for _, v := range vars {
		if s.defined[v] {
			sb.WriteString(v.ref())
			sb.WriteString(" ")
			names = append(names, v)
		}
	}
	sb.WriteString("))\n")
	if len(names) == 0 {
		return m
	}
	s.send(sb.String())
	// read a balanced s-expression
	text := s.readSexp()
	parseModel(text, names, m)
	return m
}

func (s *Solver) readSexp() string {
	var sb strings.Builder
	depth := 0
	started := false
	for {
		line, err := s.out.ReadString('\n')
		if err != nil {
			panic(engineError{"solver pipe read: " + err.Error()})
		}
		if strings.HasPrefix(strings.TrimSpace(line), "(error") {
			panic(engineError{"solver error: " + strings.TrimSpace(line)})
		}
		sb.WriteString(line)
		for _, c := range line {
			if c == '(' {
				depth++
				started = true
			} else if c == ')' {
				depth--
			}
		}
		if started && depth <= 0 {
			return sb.String()
		}
	}
}

// parseModel parses "((v1 #x..) (v2 true) (v3 (fp #b0 #b.. #b..)) ...)".
func parseModel(text string, names []*Term, m Model) {
	byName := make(map[string]*Term, len(names))
	for _, n := range names {
		byName[n.ref()] = n
	}
	toks := tokenize(text)
	// walk pairs at depth 2
	i := 0
	depth := 0
	for i < len(toks) {
		tk := toks[i]
		if tk == "(" {
			depth++
			if depth == 2 {
				// ( name value... )
				name := toks[i+1]
				j := i + 2
				val, nj := parseValue(toks, j)
				if v, ok := byName[name]; ok {
					m[v] = val
				}
				i = nj
				continue
			}
		} else if tk == ")" {
			depth--
		}
		i++
	}
}

func tokenize(text string) []string {
	var toks []string
	i := 0
	for i < len(text) {
		c := text[i]
		switch {
		case c == '(' || c == ')':
			toks = append(toks, string(c))
			i++
		case c == ' ' || c == '\n' || c == '\t' || c == '\r':
			i++
		default:
			j := i
			for j < len(text) && !strings.ContainsRune("() \n\t\r", rune(text[j])) {
				j++
			}
			toks = append(toks, text[i:j])
			i = j
		}
	}
	return toks
}

func parseLit(tok string) uint64 {
	switch {
	case tok == "true":
		return 1
	case tok == "false":
		return 0
	case strings.HasPrefix(tok, "#x"):
		v, _ := strconv.ParseUint(tok[2:], 16, 64)
		return v
	case strings.HasPrefix(tok, "#b"):
		v, _ := strconv.ParseUint(tok[2:], 2, 64)
		return v
	}
	panic(engineError{"cannot parse model literal " + tok})
}

func parseValue(toks []string, j int) (uint64, int) {
	if toks[j] != "(" {
		return parseLit(toks[j]), j + 1
	}
	// (fp s e m) | (_ bvN w) | (_ +zero 11 53) | (_ NaN 11 53) ...
	if toks[j+1] == "fp" {
		sg := parseLit(toks[j+2])
		e := parseLit(toks[j+3])
		mm := parseLit(toks[j+4])
		return sg<<63 | e<<52 | mm, j + 6
	}
	if toks[j+1] == "_" {
		k := toks[j+2]
		end := j
		for toks[end] != ")" {
			end++
		}
		switch {
		case strings.HasPrefix(k, "bv"):
			v, _ := strconv.ParseUint(k[2:], 10, 64)
			return v, end + 1
		case k == "+zero":
			return 0, end + 1
		case k == "-zero":
			return 1 << 63, end + 1
		case k == "+oo":
			return 0x7ff0000000000000, end + 1
		case k == "-oo":
			return 0xfff0000000000000, end + 1
		case k == "NaN":
			return 0x7ff8000000000001, end + 1
		}
	}
	panic(engineError{"cannot parse model value at " + strings.Join(toks[j:min(j+8, len(toks))], " ")})
}

// fallback writes the whole query as a one-shot script and tries z3-new and cvc5 (two encodings).
func (s *Solver) fallback(extra *Term, wantModel bool) (Result, Model) {
	var sb strings.Builder
	defined := map[*Term]bool{}
	var emit func(t *Term)
	emit = func(t *Term) {
		if defined[t] || t.op == OpConst || t.op == OpFConst {
			return
		}
		for _, c := range [3]*Term{t.a, t.b, t.c} {
			if c != nil {
				emit(c)
			}
		}
		if t.op == OpVar {
			fmt.Fprintf(&sb, "(declare-const %s %s)\n", t.ref(), sortString(t.w))
		} else {
			fmt.Fprintf(&sb, "(define-fun %s () %s %s)\n", t.ref(), sortString(t.w), t.body())
		}
		defined[t] = true
	}
	all := append([]*Term{}, s.asserted...)
	if extra != nil {
		all = append(all, extra)
	}
	for _, t := range all {
		emit(t)
		fmt.Fprintf(&sb, "(assert %s)\n", t.ref())
	}
	sb.WriteString("(check-sat)\n")
	var names []*Term
	if wantModel {
		sb.WriteString("(get-value (")
		for _, v := range s.store.vars {
			if defined[v] {
				sb.WriteString(v.ref() + " ")
				names = append(names, v)
			}
		}
		sb.WriteString("))\n")
	}
	f, err := os.CreateTemp("", "gosym-q-*.smt2")
	if err != nil {
		return Unknown, nil
	}
	defer os.Remove(f.Name())
	f.WriteString(sb.String())
	f.Close()
	tl := s.timeoutMs * 2
	cmds := [][]string{
		{"cvc5", "--produce-models", fmt.Sprintf("--tlimit=%d", tl), "--solve-bv-as-int=sum", "--lang=smt2", f.Name()},
		{"z3", fmt.Sprintf("-t:%d", tl), f.Name()},
		{"cvc5", "--produce-models", fmt.Sprintf("--tlimit=%d", tl), "--lang=smt2", f.Name()},
	}
	hasFP := false
	for t := range defined {
		if t.w == SortFloat || (t.a != nil && t.a.w == SortFloat) {
			hasFP = true
		}
	}
	for ci, c := range cmds {
		if hasFP && ci == 0 {
			continue
		}
		out, _ := exec.Command(c[0], c[1:]...).Output()
		text := string(out)
		if strings.Contains(text, "(error") {
			continue
		}
		lines := strings.SplitN(strings.TrimSpace(text), "\n", 2)
		switch strings.TrimSpace(lines[0]) {
		case "unsat":
			return Unsat, nil
		case "sat":
			m := Model{}
			if wantModel && len(lines) > 1 && len(names) > 0 {
				parseModel(lines[1], names, m)
			}
			return Sat, m
		}
	}
	return Unknown, nil
}

// engineError aborts a run as inconclusive (exit 2).
type engineError struct{ msg string }

func (e engineError) Error() string { return e.msg }

func solverBin() string {
	if b := os.Getenv("GOSYM_SOLVER"); b != "" {
		return b
	}
	if _, err := exec.LookPath("z3-new"); err == nil {
		return "z3-new"
	}
	return "z3"
}

// dumpQuery writes the current query as a standalone script (diagnostics).
var slowThreshold = func() time.Duration {
	if ms, err := strconv.Atoi(os.Getenv("GOSYM_SLOWMS")); err == nil && ms > 0 {
		return time.Duration(ms) * time.Millisecond
	}
	return 10 * time.Second
}()

func (s *Solver) dumpQuery(dir string, extra *Term, d time.Duration, res Result) {
	var sb strings.Builder
	defined := map[*Term]bool{}
	var emit func(t *Term)
	emit = func(t *Term) {
		if defined[t] || t.op == OpConst || t.op == OpFConst {
			return
		}
		for _, c := range [3]*Term{t.a, t.b, t.c} {
			if c != nil {
				emit(c)
			}
		}
		if t.op == OpVar {
			fmt.Fprintf(&sb, "(declare-const %s %s) ; %s\n", t.ref(), sortString(t.w), t.name)
		} else {
			fmt.Fprintf(&sb, "(define-fun %s () %s %s)\n", t.ref(), sortString(t.w), t.body())
		}
		defined[t] = true
	}
	all := append([]*Term{}, s.asserted...)
	if extra != nil {
		all = append(all, extra)
	}
	for _, t := range all {
		emit(t)
		fmt.Fprintf(&sb, "(assert %s)\n", t.ref())
	}
	sb.WriteString("(check-sat)\n")
	f, err := os.CreateTemp(dir, fmt.Sprintf("slow-%s-%ds-*.smt2", res, int(d.Seconds())))
	if err == nil {
		f.WriteString(sb.String())
		f.Close()
	}
}

package sym

import (
	"math/rand"
	"testing"
)

// Differential test of the simplifying constructors against direct evaluation.
type rexpr struct {
	kind  int // 0 const 1 var 2 bin 3 not 4 neg 5 extract 6 zext 7 sext 8 ite 9 concat
	op    Op
	w     int
	k     uint64
	a, b  *rexpr
	c     *rbool
	hi, lo int
	v     int
}
type rbool struct {
	kind int // 0 eq 1 cmp 2 and 3 or 4 not 5 const
	op   Op
	a, b *rexpr
	x, y *rbool
	k    bool
}

var widths = []int{8, 16, 32, 64}

func genE(r *rand.Rand, w, d int) *rexpr {
	if d <= 0 || r.Intn(4) == 0 {
		if r.Intn(2) == 0 {
			ks := []uint64{0, 1, mask(uint16(w)), 0x80, 0x7f, r.Uint64()}
			return &rexpr{kind: 0, w: w, k: ks[r.Intn(len(ks))] & mask(uint16(w))}
		}
		return &rexpr{kind: 1, w: w, v: r.Intn(3)}
	}
	switch r.Intn(9) {
	case 0, 1, 2:
		ops := []Op{OpAdd, OpSub, OpMul, OpUDiv, OpURem, OpSDiv, OpSRem, OpAnd, OpOr, OpXor, OpShl, OpLShr, OpAShr}
		return &rexpr{kind: 2, w: w, op: ops[r.Intn(len(ops))], a: genE(r, w, d-1), b: genE(r, w, d-1)}
	case 3:
		return &rexpr{kind: 3, w: w, a: genE(r, w, d-1)}
	case 4:
		return &rexpr{kind: 4, w: w, a: genE(r, w, d-1)}
	case 5:
		// extract from a wider
		sw := widths[r.Intn(len(widths))]
		if sw < w {
			sw = w
		}
		lo := 0
		if sw > w {
			lo = r.Intn(sw - w + 1)
		}
		return &rexpr{kind: 5, w: w, a: genE(r, sw, d-1), hi: lo + w - 1, lo: lo}
	case 6, 7:
		sw := widths[r.Intn(len(widths))]
		if sw >= w {
			return genE(r, w, d-1)
		}
		return &rexpr{kind: 6 + r.Intn(2), w: w, a: genE(r, sw, d-1)}
	case 8:
		return &rexpr{kind: 8, w: w, c: genB(r, d-1), a: genE(r, w, d-1), b: genE(r, w, d-1)}
	}
	return genE(r, w, d-1)
}

func genB(r *rand.Rand, d int) *rbool {
	if d <= 0 {
		return &rbool{kind: 5, k: r.Intn(2) == 0}
	}
	w := widths[r.Intn(len(widths))]
	switch r.Intn(6) {
	case 0, 1:
		return &rbool{kind: 0, a: genE(r, w, d-1), b: genE(r, w, d-1)}
	case 2, 3:
		ops := []Op{OpUlt, OpUle, OpSlt, OpSle}
		return &rbool{kind: 1, op: ops[r.Intn(4)], a: genE(r, w, d-1), b: genE(r, w, d-1)}
	case 4:
		return &rbool{kind: 2 + r.Intn(2), x: genB(r, d-1), y: genB(r, d-1)}
	}
	return &rbool{kind: 4, x: genB(r, d-1)}
}

func (e *rexpr) build(s *TermStore, vars map[int]map[int]*Term) *Term {
	switch e.kind {
	case 0:
		return s.Const(e.w, e.k)
	case 1:
		if vars[e.w] == nil {
			vars[e.w] = map[int]*Term{}
		}
		if vars[e.w][e.v] == nil {
			vars[e.w][e.v] = s.Var(string(rune('a'+e.v))+string(rune('0'+e.w/8)), e.w)
		}
		return vars[e.w][e.v]
	case 2:
		return s.Bin(e.op, e.a.build(s, vars), e.b.build(s, vars))
	case 3:
		return s.Not(e.a.build(s, vars))
	case 4:
		return s.Neg(e.a.build(s, vars))
	case 5:
		return s.Extract(e.a.build(s, vars), e.hi, e.lo)
	case 6:
		return s.ZExt(e.a.build(s, vars), e.w)
	case 7:
		return s.SExt(e.a.build(s, vars), e.w)
	case 8:
		return s.Ite(e.c.build(s, vars), e.a.build(s, vars), e.b.build(s, vars))
	}
	panic("x")
}

func (b *rbool) build(s *TermStore, vars map[int]map[int]*Term) *Term {
	switch b.kind {
	case 0:
		return s.Eq(b.a.build(s, vars), b.b.build(s, vars))
	case 1:
		return s.Cmp(b.op, b.a.build(s, vars), b.b.build(s, vars))
	case 2:
		return s.BAnd(b.x.build(s, vars), b.y.build(s, vars))
	case 3:
		return s.BOr(b.x.build(s, vars), b.y.build(s, vars))
	case 4:
		return s.BNot(b.x.build(s, vars))
	}
	return s.Bool(b.k)
}

func (e *rexpr) eval(env map[int]map[int]uint64) uint64 {
	m := mask(uint16(e.w))
	switch e.kind {
	case 0:
		return e.k
	case 1:
		return env[e.w][e.v] & m
	case 2:
		return foldBin(e.op, uint16(e.w), e.a.eval(env), e.b.eval(env))
	case 3:
		return ^e.a.eval(env) & m
	case 4:
		return -e.a.eval(env) & m
	case 5:
		return (e.a.eval(env) >> uint(e.lo)) & m
	case 6:
		return e.a.eval(env)
	case 7:
		return uint64(sext64(e.a.eval(env), uint16(e.a.w))) & m
	case 8:
		if e.c.eval(env) {
			return e.a.eval(env)
		}
		return e.b.eval(env)
	}
	panic("x")
}

func (b *rbool) eval(env map[int]map[int]uint64) bool {
	switch b.kind {
	case 0:
		return b.a.eval(env) == b.b.eval(env)
	case 1:
		x, y := b.a.eval(env), b.b.eval(env)
		w := uint16(b.a.w)
		switch b.op {
		case OpUlt:
			return x < y
		case OpUle:
			return x <= y
		case OpSlt:
			return sext64(x, w) < sext64(y, w)
		case OpSle:
			return sext64(x, w) <= sext64(y, w)
		}
	case 2:
		return b.x.eval(env) && b.y.eval(env)
	case 3:
		return b.x.eval(env) || b.y.eval(env)
	case 4:
		return !b.x.eval(env)
	}
	return b.k
}

func TestSimplifier(t *testing.T) {
	r := rand.New(rand.NewSource(1))
	for iter := 0; iter < 200000; iter++ {
		s := NewTermStore()
		vars := map[int]map[int]*Term{}
		b := genB(r, 4)
		tm := b.build(s, vars)
		for k := 0; k < 4; k++ {
			env := map[int]map[int]uint64{}
			model := Model{}
			for w, vs := range vars {
				env[w] = map[int]uint64{}
				for i, v := range vs {
					specials := []uint64{0, 1, mask(uint16(w)), 0x80, 0xf0, r.Uint64()}
					x := specials[r.Intn(len(specials))] & mask(uint16(w))
					env[w][i] = x
					model[v] = x
				}
			}
			got := Eval(tm, model, map[*Term]uint64{}) != 0
			want := b.eval(env)
			if got != want {
				t.Fatalf("iter %d: mismatch got %v want %v term %s env %v", iter, got, want, tm, env)
			}
		}
	}
}

package sym

// Path exploration by re-execution: decision prefixes, feasibility checks, the nd API,
// the work list and the workers.

import (
	"fmt"
	"go/token"
	"go/types"
	"os"
	"runtime/debug"
	"sort"
	"strings"
	"sync"
	"time"

	"golang.org/x/tools/go/ssa"
)

type Config struct {
	Workers         int
	MaxDepth        int
	MaxSteps        int64
	MaxLoop         int
	MaxGoroutines   int
	MaxEnum         int
	MaxPaths        int
	MaxViolations   int
	SolverTimeoutMs int
	PoolChoice      bool
	Params          map[string]int
	Known           map[string]bool // finding ids listed as "known"
	Confirm         string          // finding id under confirmation ("" = main run)
	Seed            int64
	Trace           bool
	Env             map[string]string
	Replay          []NDRec // concrete re-execution of a counterexample
	Solver          string  // "" (z3) or "cvc5"
}

func DefaultConfig() *Config {
	return &Config{
		Workers: 16, MaxDepth: 2500, MaxSteps: 400_000_000, MaxLoop: 2_000_000, MaxGoroutines: 64,
		MaxEnum: 64, MaxPaths: 2_000_000, MaxViolations: 4, SolverTimeoutMs: 60000,
		Params: map[string]int{}, Known: map[string]bool{}, Env: map[string]string{},
	}
}

type endKind int

const (
	endOK endKind = iota
	endInfeasible
	endViolation
	endPanic
	endDeadlock
	endRace
	endHang
)

type pathEnd struct {
	kind  endKind
	msg   string
	label string
}

// NDRec is one nondeterministic input in creation order.
type NDRec struct {
	Kind  string `json:"kind"` // byte, u16, u32, u64, bool, choice, sched, select, pool
	Width int    `json:"width"`
	Value uint64 `json:"value"`
	term  *Term
}

type Violation struct {
	Kind      string   `json:"kind"` // assert, panic, deadlock, race
	Label     string   `json:"label"`
	Msg       string   `json:"msg"`
	ND        []NDRec  `json:"nd"`
	Decisions []int64  `json:"decisions"`
	Observed  []string `json:"observed,omitempty"`
	Known     string   `json:"known,omitempty"`
}

// dec is one entry of a decision prefix: a branch/choice outcome or a concretised value
// (v); a trailing entry with isExcl set means "pick a value not in excl".
type dec struct {
	v      int64
	excl   []int64
	isExcl bool
}

type pathState struct {
	prefix    []dec
	pos       int
	decisions []dec
	model     Model
	memo      map[*Term]uint64
	nd        []NDRec
	ndCount   int
	forks     [][]dec
	asserts   int
	observed  []string
	assertsSkipped int
	known     map[*Term]bool
	anyMany   bool
	dom       map[*Term]*[4]uint64 // possible values of 8-bit variables under the single-variable constraints asserted so far
	mixed     map[*Term]bool       // variable occurs in an asserted constraint together with other variables
	domHits   int
	symbolic  bool // took at least one solver-decided branch
	knownHit  string
}

func b2i(b bool) int64 {
	if b {
		return 1
	}
	return 0
}

// note records the truth value of a decided condition (and of its negation).
func (p *pathState) note(c *Term, v bool) {
	if p.known == nil {
		p.known = make(map[*Term]bool)
	}
	p.known[c] = v
	if c.op == OpBNot {
		p.known[c.a] = !v
	}
}

// ---- small-domain reasoning: conditions over one 8-bit (or boolean) variable are decided by
// evaluating them on every value the variable can still take ----

func fullDom(w uint16) *[4]uint64 {
	d := &[4]uint64{}
	n := 256
	if w == SortBool {
		n = 2
	} else if w < 8 {
		n = 1 << w
	}
	for v := 0; v < n; v++ {
		d[v>>6] |= 1 << uint(v&63)
	}
	return d
}

func smallVar(v *Term) bool { return v.w == SortBool || (v.w >= 1 && v.w <= 8) }

// truthTable evaluates c on every value of v in dom; returns counts and a witness for each side.
func truthTable(c, v *Term, dom *[4]uint64) (nTrue, nFalse int, wTrue, wFalse uint64) {
	m := Model{}
	for val := 0; val < 256; val++ {
		if dom[val>>6]&(1<<uint(val&63)) == 0 {
			continue
		}
		m[v] = uint64(val)
		if Eval(c, m, map[*Term]uint64{}) != 0 {
			if nTrue == 0 {
				wTrue = uint64(val)
			}
			nTrue++
		} else {
			if nFalse == 0 {
				wFalse = uint64(val)
			}
			nFalse++
		}
	}
	return
}

// noteConstraint refines the domains with an asserted constraint.
func (p *pathState) noteConstraint(c *Term) {
	vars, many := c.Support()
	if many || len(vars) == 0 {
		// the variables are unknown here (too many): nothing can be said about them any more;
		// mark conservatively by flagging the whole path
		if many {
			p.anyMany = true
		}
		return
	}
	if p.dom == nil {
		p.dom = make(map[*Term]*[4]uint64)
		p.mixed = make(map[*Term]bool)
	}
	if len(vars) == 1 && smallVar(vars[0]) {
		v := vars[0]
		d := p.dom[v]
		if d == nil {
			d = fullDom(v.w)
			p.dom[v] = d
		}
		m := Model{}
		for val := 0; val < 256; val++ {
			if d[val>>6]&(1<<uint(val&63)) == 0 {
				continue
			}
			m[v] = uint64(val)
			if Eval(c, m, map[*Term]uint64{}) == 0 {
				d[val>>6] &^= 1 << uint(val&63)
			}
		}
		return
	}
	for _, v := range vars {
		p.mixed[v] = true
	}
}

// domDecide tries to decide a branch condition without the solver. ok=false: not applicable.
func (p *pathState) domDecide(c *Term) (tOK, fOK bool, wTrue, wFalse uint64, v *Term, ok bool) {
	if p.anyMany {
		return
	}
	vars, many := c.Support()
	if many || len(vars) != 1 || !smallVar(vars[0]) {
		return
	}
	v = vars[0]
	d := (*[4]uint64)(nil)
	if p.dom != nil {
		d = p.dom[v]
	}
	if d == nil {
		d = fullDom(v.w)
	}
	nT, nF, wT, wF := truthTable(c, v, d)
	if nT > 0 && nF > 0 && p.mixed != nil && p.mixed[v] {
		// other constraints tie v to other variables: the domain over-approximates; only
		// one-sided answers are sound
		return
	}
	return nT > 0, nF > 0, wT, wF, v, true
}

func (p *pathState) setModel(m Model) {
	p.model = m
	p.memo = make(map[*Term]uint64)
}

func (fr *frame) decide(c value) bool {
	switch c := c.(type) {
	case bool:
		return c
	case *Term:
		return fr.i.branch(c)
	}
	panic(fmt.Sprintf("decide: %T", c))
}

// assertPC adds a constraint to the path condition (solver + small-domain bookkeeping).
func (in *interpreter) assertPC(c *Term) {
	in.solver.Assert(c)
	if in.path != nil {
		in.path.noteConstraint(c)
	}
}

// branch forks on a symbolic condition.
func (in *interpreter) branch(c *Term) bool {
	p := in.path
	if p == nil {
		panic(engineError{"symbolic branch outside a path (during init?)"})
	}
	ts := in.ts
	if p.pos < len(p.prefix) {
		out := p.prefix[p.pos].v
		p.pos++
		p.model = nil
		p.decisions = append(p.decisions, dec{v: out})
		if out == 1 {
			in.assertPC(c)
		} else {
			in.assertPC(ts.BNot(c))
		}
		p.symbolic = true
		p.note(c, out == 1)
		return out == 1
	}
	p.pos++
	// a condition already decided on this path (e.g. the same comparison made twice)
	if v, ok := p.known[c]; ok {
		p.decisions = append(p.decisions, dec{v: b2i(v)})
		return v
	}
	if c.op == OpBNot {
		if v, ok := p.known[c.a]; ok {
			p.decisions = append(p.decisions, dec{v: b2i(!v)})
			return !v
		}
	}
	var tOK, fOK, haveT, haveF bool
	var tModel, fModel Model
	if dT, dF, wT, wF, dv, ok := p.domDecide(c); ok && in.cfg.Replay == nil {
		p.domHits++
		haveT, haveF = true, true
		tOK, fOK = dT, dF
		// models: keep the current one on the side it satisfies, patch the variable for the other
		patch := func(w uint64) Model {
			if p.model == nil {
				return nil
			}
			m := make(Model, len(p.model)+1)
			for k, x := range p.model {
				m[k] = x
			}
			m[dv] = w
			return m
		}
		if p.model != nil && (p.mixed == nil || !p.mixed[dv]) {
			tModel, fModel = patch(wT), patch(wF)
			if Eval(c, p.model, p.memo) != 0 {
				tModel = p.model
			} else {
				fModel = p.model
			}
		} else if p.model != nil {
			// v is tied to other variables: only the side the current model satisfies keeps a model
			if Eval(c, p.model, p.memo) != 0 {
				tModel = p.model
			} else {
				fModel = p.model
			}
		}
	} else if p.model != nil {
		if Eval(c, p.model, p.memo) != 0 {
			tOK, haveT, tModel = true, true, p.model
		} else {
			fOK, haveF, fModel = true, true, p.model
		}
	}
	if !haveT {
		r, m := in.solver.Check(c, true)
		if r == Unknown {
			panic(engineError{"solver returned unknown on a branch condition"})
		}
		tOK, tModel = r == Sat, m
	}
	if !haveF {
		r, m := in.solver.Check(ts.BNot(c), true)
		if r == Unknown {
			panic(engineError{"solver returned unknown on a branch condition"})
		}
		fOK, fModel = r == Sat, m
	}
	switch {
	case tOK && fOK:
		p.symbolic = true
		in.noteFork()
		// continue with the side consistent with the cached model, fork the other
		takeTrue := haveT || !haveF
		if haveT && haveF && p.model != nil {
			takeTrue = Eval(c, p.model, p.memo) != 0
		}
		other := int64(0)
		if !takeTrue {
			other = 1
		}
		fork := append(append([]dec{}, p.decisions...), dec{v: other})
		p.forks = append(p.forks, fork)
		if takeTrue {
			p.decisions = append(p.decisions, dec{v: 1})
			in.assertPC(c)
			p.setModel(tModel)
			p.note(c, true)
			return true
		}
		p.decisions = append(p.decisions, dec{v: 0})
		in.assertPC(ts.BNot(c))
		p.setModel(fModel)
		p.note(c, false)
		return false
	case tOK:
		p.decisions = append(p.decisions, dec{v: 1})
		in.assertPC(c)
		p.setModel(tModel)
		p.note(c, true)
		return true
	case fOK:
		p.decisions = append(p.decisions, dec{v: 0})
		in.assertPC(ts.BNot(c))
		p.setModel(fModel)
		p.note(c, false)
		return false
	}
	panic(pathEnd{kind: endInfeasible, msg: "both sides infeasible"})
}

// choice makes an n-way nondeterministic choice (all outcomes feasible).
func (p *pathState) choice(in *interpreter, n int, kind string) int {
	if n <= 1 {
		return 0
	}
	var out int
	if in.cfg.Replay != nil {
		for in.replayPos < len(in.cfg.Replay) && in.cfg.Replay[in.replayPos].Kind != kind && isSchedKind(in.cfg.Replay[in.replayPos].Kind) != isSchedKind(kind) {
			in.replayPos++
		}
		if in.replayPos < len(in.cfg.Replay) {
			out = int(in.cfg.Replay[in.replayPos].Value)
			in.replayPos++
		}
		if out >= n {
			out = 0
		}
		p.pos++
	} else if p.pos < len(p.prefix) {
		out = int(p.prefix[p.pos].v)
		p.pos++
	} else {
		p.pos++
		for k := n - 1; k >= 1; k-- {
			fork := append(append([]dec{}, p.decisions...), dec{v: int64(k)})
			p.forks = append(p.forks, fork)
		}
		out = 0
	}
	p.decisions = append(p.decisions, dec{v: int64(out)})
	p.nd = append(p.nd, NDRec{Kind: kind, Width: n, Value: uint64(out)})
	return out
}

func (in *interpreter) ensureModel() Model {
	p := in.path
	if p.model == nil {
		r, m := in.solver.Check(nil, true)
		if r != Sat {
			if r == Unsat {
				panic(pathEnd{kind: endInfeasible, msg: "path condition unsatisfiable"})
			}
			panic(engineError{"solver returned unknown on the path condition"})
		}
		p.setModel(m)
	}
	return p.model
}

// concretize forks over the feasible values of t and returns the one of this path.
func (in *interpreter) concretize(fr *frame, t *Term) int64 {
	p := in.path
	if p == nil {
		panic(engineError{"symbolic value concretised outside a path"})
	}
	ts := in.ts
	eqc := func(v int64) *Term { return ts.Eq(t, ts.Const(int(t.w), uint64(v))) }
	var excl []int64
	if p.pos < len(p.prefix) {
		d := p.prefix[p.pos]
		if !d.isExcl {
			p.pos++
			p.decisions = append(p.decisions, d)
			in.assertPC(eqc(d.v))
			p.symbolic = true
			return d.v
		}
		// last prefix entry: pick a value outside the exclusion list
		excl = d.excl
		for _, x := range excl {
			in.assertPC(ts.BNot(eqc(x)))
		}
		p.model = nil
	}
	p.pos++
	if len(excl) >= in.cfg.MaxEnum {
		panic(engineError{fmt.Sprintf("more than %d feasible values for a symbolic length/index in %s", in.cfg.MaxEnum, fr.fn)})
	}
	m := in.ensureModel()
	v := sext64(Eval(t, m, p.memo), t.w)
	p.symbolic = true
	// fork only if another value is feasible
	r, _ := in.solver.Check(ts.BNot(eqc(v)), false)
	if r == Unknown {
		panic(engineError{"solver returned unknown while enumerating values"})
	}
	if r == Sat {
		in.noteFork()
		nexcl := append(append([]int64{}, excl...), v)
		p.forks = append(p.forks, append(append([]dec{}, p.decisions...), dec{isExcl: true, excl: nexcl}))
	}
	p.decisions = append(p.decisions, dec{v: v})
	in.assertPC(eqc(v))
	return v
}

// fork-site profile (GOSYM_FORKS=1): where paths split, for tuning harness shapes
var (
	forkProfile = os.Getenv("GOSYM_FORKS") != ""
	forkMu      sync.Mutex
	forkSites   = map[string]int{}
)

func (in *interpreter) noteFork() {
	if !forkProfile {
		return
	}
	w := in.hbWhere()
	forkMu.Lock()
	forkSites[w]++
	forkMu.Unlock()
}

// DumpForkProfile prints the most frequent fork sites.
func DumpForkProfile() {
	if !forkProfile {
		return
	}
	type kv struct {
		k string
		n int
	}
	var l []kv
	for k, n := range forkSites {
		l = append(l, kv{k, n})
	}
	sort.Slice(l, func(i, j int) bool { return l[i].n > l[j].n })
	for i, e := range l {
		if i >= 25 {
			break
		}
		fmt.Fprintf(os.Stderr, "fork %6d %s\n", e.n, e.k)
	}
}

// ---- nd API ----

const ndPkgSuffix = "/zzverif/nd."

func (in *interpreter) freshVar(kind string, w int) value {
	p := in.path
	if p == nil {
		panic(engineError{"nd value requested outside a path"})
	}
	if in.cfg.Replay != nil {
		var v uint64
		for in.replayPos < len(in.cfg.Replay) && isSchedKind(in.cfg.Replay[in.replayPos].Kind) {
			in.replayPos++
		}
		if in.replayPos < len(in.cfg.Replay) {
			v = in.cfg.Replay[in.replayPos].Value
			in.replayPos++
		}
		p.nd = append(p.nd, NDRec{Kind: kind, Width: w, Value: v})
		switch w {
		case SortFloat:
			return float64frombits(v)
		case SortBool:
			return v != 0
		case 8:
			return uint8(v)
		case 16:
			return uint16(v)
		case 32:
			return uint32(v)
		}
		if kind == "int" {
			return int(v)
		}
		return v
	}
	t := in.ts.Var(fmt.Sprintf("nd%d_%s", p.ndCount, kind), w)
	p.ndCount++
	p.nd = append(p.nd, NDRec{Kind: kind, Width: w, term: t})
	return t
}

func isSchedKind(k string) bool { return k == "sched" || k == "select" || k == "pool" }

func ndByte(fr *frame, args []value) value   { return fr.i.freshVar("byte", 8) }
func ndUint16(fr *frame, args []value) value { return fr.i.freshVar("u16", 16) }
func ndUint32(fr *frame, args []value) value { return fr.i.freshVar("u32", 32) }
func ndUint64(fr *frame, args []value) value { return fr.i.freshVar("u64", 64) }
func ndBool(fr *frame, args []value) value   { return fr.i.freshVar("bool", SortBool) }
func ndInt(fr *frame, args []value) value    { return fr.i.freshVar("int", 64) }
func ndFloat64(fr *frame, args []value) value { return fr.i.freshVar("f64", SortFloat) }

func ndBytes(fr *frame, args []value) value {
	n := fr.concInt(args[0])
	out := make([]value, n)
	for i := range out {
		out[i] = fr.i.freshVar("byte", 8)
	}
	return out
}

func ndChoice(fr *frame, args []value) value {
	n := int(fr.concInt(args[0]))
	if n <= 0 {
		panic(engineError{"nd.Choice with n <= 0"})
	}
	return fr.i.path.choice(fr.i, n, "choice")
}

func ndParam(fr *frame, args []value) value {
	name := args[0].(string)
	v, ok := fr.i.cfg.Params[name]
	if !ok {
		panic(engineError{"nd.Param: no value for parameter " + name})
	}
	return v
}

func ndAssume(fr *frame, args []value) value {
	fr.i.assume(args[0])
	return nil
}

func (in *interpreter) assume(c value) {
	switch c := c.(type) {
	case bool:
		if !c {
			panic(pathEnd{kind: endInfeasible, msg: "assume(false)"})
		}
	case *Term:
		p := in.path
		if p.pos < len(p.prefix) {
			in.assertPC(c)
			p.model = nil
			return
		}
		if p.model != nil && Eval(c, p.model, p.memo) != 0 {
			in.assertPC(c)
			return
		}
		if dT, _, wT, _, dv, ok := p.domDecide(c); ok && in.cfg.Replay == nil {
			if !dT {
				panic(pathEnd{kind: endInfeasible, msg: "assumption infeasible"})
			}
			in.assertPC(c)
			// the cached model does not satisfy c: patch it if the variable is independent
			if p.model != nil && (p.mixed == nil || !p.mixed[dv]) {
				m := make(Model, len(p.model)+1)
				for k, x := range p.model {
					m[k] = x
				}
				m[dv] = wT
				p.setModel(m)
			} else {
				p.model = nil
			}
			return
		}
		r, m := in.solver.Check(c, true)
		switch r {
		case Unsat:
			panic(pathEnd{kind: endInfeasible, msg: "assumption infeasible"})
		case Unknown:
			panic(engineError{"solver returned unknown on an assumption"})
		}
		in.assertPC(c)
		p.setModel(m)
	}
}

func ndAssert(fr *frame, args []value) value {
	in := fr.i
	label := ""
	if len(args) > 1 {
		label, _ = args[1].(string)
	}
	switch c := args[0].(type) {
	case bool:
		in.path.asserts++
		if !c {
			in.ensureModel()
			panic(pathEnd{kind: endViolation, label: label, msg: "assertion failed: " + label})
		}
	case *Term:
		p := in.path
		if p.pos >= len(p.prefix) || in.cfg.Replay != nil {
			p.asserts++
		}
		if p.pos < len(p.prefix) && in.cfg.Replay == nil {
			// still following the prefix: this assertion was discharged by the ancestor path
			// under the same path condition
			p.assertsSkipped++
			return nil
		}
		if p.model != nil && Eval(c, p.model, p.memo) == 0 {
			panic(pathEnd{kind: endViolation, label: label, msg: "assertion failed: " + label})
		}
		if _, dF, _, _, _, ok := p.domDecide(c); ok && !dF && in.cfg.Replay == nil {
			// true for every value the variable can take on this path
			in.assertPC(c)
			return nil
		}
		r, m := in.solver.Check(in.ts.BNot(c), true)
		switch r {
		case Sat:
			if Eval(c, m, map[*Term]uint64{}) != 0 {
				panic(engineError{"solver model does not falsify the assertion under the engine's evaluator (encoding bug): " + c.String()})
			}
			p.setModel(m)
			panic(pathEnd{kind: endViolation, label: label, msg: "assertion failed: " + label})
		case Unknown:
			panic(engineError{"solver returned unknown on assertion " + label})
		}
		in.assertPC(c)
	}
	return nil
}

// ndKnown(id, cond): see DESIGN 6.4.
func ndKnown(fr *frame, args []value) value {
	in := fr.i
	id := args[0].(string)
	cond := args[1]
	if in.cfg.Confirm == id {
		// confirmation run: nothing is assumed; a path on which the predicate holds is marked
		if fr.decide(cond) {
			in.path.knownHit = id
		}
		return nil
	}
	if in.cfg.Known[id] {
		in.assume(in.not(cond))
	}
	return nil
}

func ndObserve(fr *frame, args []value) value {
	in := fr.i
	label := args[0].(string)
	x := args[1]
	if it, ok := x.(iface); ok {
		x = it.v
	}
	in.path.observed = append(in.path.observed, label+"="+toString(in.concretizeValue(fr, x)))
	return nil
}

// concretizeValue replaces symbolic leaves by their value on this path (forking).
func (in *interpreter) concretizeValue(fr *frame, x value) value {
	switch x := x.(type) {
	case *Term:
		v := in.concretize(fr, x)
		return v
	case symstr:
		out := make([]byte, len(x))
		for i, b := range x {
			switch b := b.(type) {
			case uint8:
				out[i] = b
			case *Term:
				out[i] = byte(in.concretize(fr, b))
			}
		}
		return string(out)
	case []value:
		out := make([]value, len(x))
		for i := range x {
			out[i] = in.concretizeValue(fr, x[i])
		}
		return out
	case array:
		out := make(array, len(x))
		for i := range x {
			out[i] = in.concretizeValue(fr, x[i])
		}
		return out
	case structure:
		out := make(structure, len(x))
		for i := range x {
			out[i] = in.concretizeValue(fr, x[i])
		}
		return out
	}
	return x
}

func ndYield(fr *frame, args []value) value {
	fr.i.yieldPoint(fr)
	return nil
}

// ndSchedExploreFine(budget): like SchedExplore, and every synchronisation operation is a
// pre-emption point as well.
func ndSchedExploreFine(fr *frame, args []value) value {
	s := fr.i.sched
	s.explore = true
	s.fine = true
	s.budget = int(fr.concInt(args[0]))
	return nil
}

// ndSchedExplore(budget): from here on, explore interleavings with the given pre-emption budget.
func ndSchedExplore(fr *frame, args []value) value {
	s := fr.i.sched
	s.explore = true
	s.budget = int(fr.concInt(args[0]))
	return nil
}

func ndRaceDetect(fr *frame, args []value) value {
	in := fr.i
	if in.hb == nil {
		in.hb = newHB()
	}
	return nil
}

func ndIsSymbolic(fr *frame, args []value) value { return true }

// nd.HangBound(n): from here on a loop of the code under test that makes more than n iterations
// in one activation is reported as a violation (kind=hang) instead of running into the engine's
// caps; the harness chooses n far above what its bounded inputs can need.
func ndHangBound(fr *frame, args []value) value {
	fr.i.hangBound = int(asInt64(args[0]))
	return nil
}

// ndQuiesce parks the caller until every other goroutine has finished or is blocked for good.
func ndQuiesce(fr *frame, args []value) value {
	in := fr.i
	in.park(fr, func() bool {
		for _, g := range in.sched.gs {
			if g == fr.g || g.done {
				continue
			}
			if !g.blocked || g.ready() {
				return false
			}
		}
		return true
	}, "nd.Quiesce")
	return nil
}

func ndAnd(fr *frame, args []value) value { return fr.i.and(args[0], args[1]) }
func ndOr(fr *frame, args []value) value  { return fr.i.or(args[0], args[1]) }
func ndNot(fr *frame, args []value) value { return fr.i.not(args[0]) }

// ndIte(c, a, b): a value-level conditional that does not fork.
func ndIte(fr *frame, args []value) value {
	in := fr.i
	switch c := args[0].(type) {
	case bool:
		if c {
			return args[1]
		}
		return args[2]
	case *Term:
		t := fr.fn.Signature.Results().At(0).Type()
		return fromTerm(in.ts.Ite(c, in.termOf(args[1]), in.termOf(args[2])), t)
	}
	panic("ndIte")
}

func init() {
	base := "github.com/facebookincubator/dns/dnsrocks/zzverif/nd."
	for name, f := range map[string]externalFn{
		"Byte": ndByte, "Uint16": ndUint16, "Uint32": ndUint32, "Uint64": ndUint64, "Bool": ndBool, "Int": ndInt,
		"Float64": ndFloat64, "Bytes": ndBytes, "Choice": ndChoice, "Param": ndParam, "Assume": ndAssume, "Assert": ndAssert,
		"Known": ndKnown, "Observe": ndObserve, "Yield": ndYield, "SchedExplore": ndSchedExplore, "SchedExploreFine": ndSchedExploreFine,
		"RaceDetect": ndRaceDetect, "Symbolic": ndIsSymbolic, "Quiesce": ndQuiesce, "HangBound": ndHangBound,
		"And": ndAnd, "Or": ndOr, "Not": ndNot, "IteInt": ndIte, "IteU8": ndIte, "IteU32": ndIte, "IteBool": ndIte,
	} {
		externals[base+name] = f
		externals["github.com/repustate/go-cdb/zzverif/nd."+name] = f
	}
}

// ---- running one path ----

type PathResult struct {
	End       endKind
	Msg       string
	Label     string
	Violation *Violation
	Forks     [][]dec
	Steps     int64
	Symbolic  bool
	Asserts   int
	Decisions int
	Observed  []string
	Err       string // engine error (inconclusive)
}

func (in *interpreter) runPath(prefix []dec) (res PathResult) {
	in.path = &pathState{prefix: prefix}
	in.steps = 0
	in.replayPos = 0
	in.clock = 0
	in.trailOn = true
	in.hb = nil
	in.sched = in.newScheduler()
	in.elemOwner = make(map[*value][]value)
	in.addrs = make(map[*value]uintptr)
	in.nextAddr = 0
	in.syncs = nil
	in.timers = nil
	in.hangBound = 0
	in.solver.BeginPath()
	defer func() {
		if p := recover(); p != nil {
			if ee, ok := p.(engineError); ok {
				res.Err = ee.msg
			} else {
				res.Err = fmt.Sprintf("engine panic: %v\n%s", p, debug.Stack())
			}
			func() {
				defer func() { recover() }()
				in.abortAll()
			}()
		}
		func() {
			defer func() {
				if p := recover(); p != nil && res.Err == "" {
					res.Err = fmt.Sprintf("engine panic in path teardown: %v", p)
				}
			}()
			in.solver.EndPath()
		}()
		in.rollback()
		in.trailOn = false
		p := in.path
		res.Forks = p.forks
		res.Steps = in.steps
		res.Symbolic = p.symbolic
		res.Asserts = p.asserts
		res.Decisions = len(p.decisions)
		res.Observed = p.observed
		in.path = nil
	}()

	main := in.spawn(nil, in.harnessFn, nil, token.NoPos)
	out := in.runGoroutines(main)
	p := in.path
	mkViolation := func(kind, label, msg string) *Violation {
		m := in.ensureModel()
		v := &Violation{Kind: kind, Label: label, Msg: msg, Observed: p.observed, Known: p.knownHit}
		for _, d := range p.decisions {
			v.Decisions = append(v.Decisions, d.v)
		}
		memo := map[*Term]uint64{}
		for _, r := range p.nd {
			if r.term != nil {
				r.Value = Eval(r.term, m, memo)
			}
			v.ND = append(v.ND, r)
		}
		return v
	}
	switch o := out.(type) {
	case nil:
		res.End = endOK
	case pathEnd:
		res.End, res.Msg, res.Label = o.kind, o.msg, o.label
		switch o.kind {
		case endViolation:
			res.Violation = mkViolation("assert", o.label, o.msg)
		case endDeadlock:
			res.Violation = mkViolation("deadlock", "deadlock", o.msg)
		case endRace:
			res.Violation = mkViolation("race", "race", o.msg)
		case endHang:
			res.Violation = mkViolation("hang", "hang", o.msg)
		}
	case targetPanic:
		res.End = endPanic
		res.Msg = "panic: " + in.panicString(o.v)
		res.Violation = mkViolation("panic", "panic", res.Msg)
	case engineError:
		res.Err = o.msg
	default:
		res.Err = fmt.Sprintf("engine panic: %v", out)
		if st, ok := out.(interface{ Stack() string }); ok {
			res.Err += "\n" + st.Stack()
		}
	}
	return
}

func (in *interpreter) panicString(v value) string {
	if it, ok := v.(iface); ok {
		if it.t == nil {
			return "nil"
		}
		if s, ok := it.v.(string); ok {
			return s
		}
		// error values: try Error()
		if m := in.findMethod(it.t, "Error"); m != nil {
			var s string
			func() {
				defer func() { recover() }()
				r := call(in, &frame{i: in, fn: in.harnessFn}, token.NoPos, m, []value{it.v})
				s = toString(r)
			}()
			if s != "" {
				return s
			}
		}
		return fmt.Sprintf("(%s) %s", it.t, toString(it.v))
	}
	return toString(v)
}

// ---- exploration ----

type Stats struct {
	Paths          int
	Completed      int // reached the end of the harness
	Infeasible     int
	SymbolicPaths  int
	ReachingAssert int
	Asserts        int
	Steps          int64
	MaxDecisions   int
	Solver         SolverStats
	Wall           time.Duration
	WitnessSat     bool
	Functions      []string
	Samples        []map[string]interface{}
}

type Outcome struct {
	Stats      Stats
	Violations []*Violation
	Errors     []string
	Observed   [][]string
}

type explorer struct {
	mu      sync.Mutex
	cond    *sync.Cond
	work    [][]dec
	active  int
	stopped bool
	out     *Outcome
	cfg     *Config
	funcs   map[string]bool
}

// Explore runs harness function fn exhaustively.
func Explore(prog *ssa.Program, fn *ssa.Function, substs map[*ssa.Function]*ssa.Function, cfg *Config) *Outcome {
	ex := &explorer{cfg: cfg, out: &Outcome{}, funcs: map[string]bool{}}
	ex.cond = sync.NewCond(&ex.mu)
	ex.work = [][]dec{{}}
	start := time.Now()
	nw := cfg.Workers
	if nw < 1 {
		nw = 1
	}
	var wg sync.WaitGroup
	for w := 0; w < nw; w++ {
		wg.Add(1)
		go func(w int) {
			defer wg.Done()
			ex.worker(prog, fn, substs, w)
		}(w)
	}
	wg.Wait()
	ex.out.Stats.Wall = time.Since(start)
	for f := range ex.funcs {
		ex.out.Stats.Functions = append(ex.out.Stats.Functions, f)
	}
	sort.Strings(ex.out.Stats.Functions)
	return ex.out
}

func (ex *explorer) worker(prog *ssa.Program, fn *ssa.Function, substs map[*ssa.Function]*ssa.Function, w int) {
	var in *interpreter
	defer func() {
		if in != nil && in.solver != nil {
			ex.mu.Lock()
			s := &ex.out.Stats.Solver
			ws := in.solver.Stats
			s.Queries += ws.Queries
			s.Sat += ws.Sat
			s.Unsat += ws.Unsat
			s.Unknown += ws.Unknown
			s.Fallbacks += ws.Fallbacks
			s.Time += ws.Time
			if ws.MaxQuery > s.MaxQuery {
				s.MaxQuery = ws.MaxQuery
			}
			for f := range in.entered {
				ex.funcs[f.String()] = true
			}
			ex.mu.Unlock()
			in.solver.Close()
		}
	}()
	for {
		ex.mu.Lock()
		for len(ex.work) == 0 && ex.active > 0 && !ex.stopped {
			ex.cond.Wait()
		}
		if ex.stopped || len(ex.work) == 0 {
			ex.mu.Unlock()
			ex.cond.Broadcast()
			return
		}
		prefix := ex.work[len(ex.work)-1]
		ex.work = ex.work[:len(ex.work)-1]
		ex.active++
		ex.mu.Unlock()

		if in == nil {
			var err error
			in, err = newInterpreter(prog, fn, substs, ex.cfg)
			if err != nil {
				ex.mu.Lock()
				ex.out.Errors = append(ex.out.Errors, "init: "+err.Error())
				ex.stopped = true
				ex.active--
				ex.mu.Unlock()
				ex.cond.Broadcast()
				return
			}
		}
		res := in.runPath(prefix)

		ex.mu.Lock()
		ex.active--
		st := &ex.out.Stats
		st.Paths++
		st.Steps += res.Steps
		st.Asserts += res.Asserts
		if res.Decisions > st.MaxDecisions {
			st.MaxDecisions = res.Decisions
		}
		if res.Err != "" {
			ex.out.Errors = append(ex.out.Errors, res.Err)
			ex.stopped = true
		} else {
			switch res.End {
			case endOK:
				st.Completed++
				if res.Symbolic {
					st.SymbolicPaths++
				}
				if res.Asserts > 0 {
					st.ReachingAssert++
				}
				st.WitnessSat = true
				if len(st.Samples) < 3 {
					st.Samples = append(st.Samples, map[string]interface{}{
						"decisions": res.Decisions, "asserts": res.Asserts, "steps": res.Steps, "end": "ok",
					})
				}
			case endInfeasible:
				st.Infeasible++
			default:
				if res.Violation != nil {
					ex.out.Violations = append(ex.out.Violations, res.Violation)
					if len(ex.out.Violations) >= ex.cfg.MaxViolations {
						ex.stopped = true
					}
				}
			}
			if len(res.Observed) > 0 && len(ex.out.Observed) < 64 {
				ex.out.Observed = append(ex.out.Observed, res.Observed)
			}
			ex.work = append(ex.work, res.Forks...)
			if st.Paths+len(ex.work) > ex.cfg.MaxPaths {
				ex.out.Errors = append(ex.out.Errors, fmt.Sprintf("path bound %d exceeded", ex.cfg.MaxPaths))
				ex.stopped = true
			}
		}
		ex.mu.Unlock()
		ex.cond.Broadcast()
	}
}

// ---- interpreter construction and package initialisation ----

func newInterpreter(prog *ssa.Program, harness *ssa.Function, substs map[*ssa.Function]*ssa.Function, cfg *Config) (*interpreter, error) {
	in := &interpreter{
		prog:       prog,
		globals:    make(map[*ssa.Global]*gcell),
		ts:         NewTermStore(),
		cfg:        cfg,
		subst:      substs,
		funcCache:  make(map[string]*ssa.Function),
		entered:    make(map[*ssa.Function]bool),
		initFailed: make(map[*ssa.Package]string),
		elemOwner:  make(map[*value][]value),
		addrs:      make(map[*value]uintptr),
		harnessFn:  harness,
		tracing:    cfg.Trace,
	}
	runtimePkg := prog.ImportedPackage("runtime")
	if runtimePkg == nil {
		return nil, fmt.Errorf("ssa.Program doesn't include runtime package")
	}
	in.runtimeErrorString = runtimePkg.Type("errorString").Object().Type()
	solver, err := NewSolver(in.ts, cfg.SolverTimeoutMs, cfg.Solver)
	if err != nil {
		return nil, err
	}
	in.solver = solver

	for _, pkg := range prog.AllPackages() {
		for _, m := range pkg.Members {
			if v, ok := m.(*ssa.Global); ok {
				cell := zero(deref(v.Type()))
				in.globals[v] = &gcell{addr: &cell}
			}
		}
	}
	in.runInits()
	return in, nil
}

// initSkip lists packages whose initialisers are not run (their globals are poisoned).
var initSkip = map[string]bool{
	"runtime": true, "os": true, "syscall": true, "internal/poll": true, "os/signal": true, "os/exec": true,
	"internal/godebug": true, "internal/cpu": true, "runtime/cgo": true, "runtime/debug": true, "runtime/pprof": true,
	"runtime/trace": true, "internal/syscall/unix": true, "internal/testlog": true, "testing": true, "plugin": true,
	"net/http": true, "crypto/tls": true, "log/syslog": true, "os/user": true,
	"golang.org/x/sys/unix": true, "golang.org/x/sys/cpu": true, "internal/sysinfo": true,
	"flag": true, "expvar": true, "net/http/pprof": true,
}

// runInits executes package initialisers in dependency order. A package whose init hits an
// unsupported construct is marked failed and its globals are poisoned.
func (in *interpreter) runInits() {
	in.initPhase = true
	defer func() { in.initPhase = false }()
	done := make(map[*ssa.Package]bool)
	var visit func(pkg *ssa.Package)
	visit = func(pkg *ssa.Package) {
		if pkg == nil || done[pkg] {
			return
		}
		done[pkg] = true
		if pkg.Pkg != nil {
			imps := pkg.Pkg.Imports()
			for _, imp := range imps {
				visit(in.prog.Package(imp))
			}
		}
		path := ""
		if pkg.Pkg != nil {
			path = pkg.Pkg.Path()
		}
		fail := ""
		if initSkip[path] || strings.HasPrefix(path, "crypto/") || strings.HasPrefix(path, "vendor/") && false {
			fail = "init skipped (environment package)"
		} else {
			initFn := pkg.Func("init")
			if initFn != nil {
				fail = in.runOneInit(pkg, initFn)
			}
		}
		if fail != "" {
			in.initFailed[pkg] = fail
			for _, m := range pkg.Members {
				if g, ok := m.(*ssa.Global); ok {
					in.globals[g].poison = "package " + path + ": " + fail
				}
			}
			if os.Getenv("GOSYM_INITLOG") != "" {
				fmt.Fprintf(os.Stderr, "init %s: %s\n", path, fail)
			}
		}
	}
	pkgs := in.prog.AllPackages()
	sort.Slice(pkgs, func(i, j int) bool { return pkgs[i].Pkg.Path() < pkgs[j].Pkg.Path() })
	for _, pkg := range pkgs {
		visit(pkg)
	}
}

func (in *interpreter) runOneInit(pkg *ssa.Package, initFn *ssa.Function) (fail string) {
	defer func() {
		if p := recover(); p != nil {
			switch p := p.(type) {
			case engineError:
				fail = p.msg
			case targetPanic:
				fail = "panic in init: " + toString(p.v)
			default:
				fail = fmt.Sprintf("engine panic in init: %v", p)
				if os.Getenv("GOSYM_INITLOG") == "2" {
					fail += "\n" + string(debug.Stack())
				}
			}
			if len(fail) > 600 && os.Getenv("GOSYM_INITLOG") != "2" {
				fail = fail[:600]
			}
		}
	}()
	top := &frame{i: in, fn: initFn}
	in.curInitPkg = pkg
	callSSA(in, top, token.NoPos, initFn, nil, nil)
	return ""
}

// isPkgInit reports whether fn is a package initializer other than the one being run.
func (in *interpreter) isForeignPkgInit(fn *ssa.Function) bool {
	return fn.Name() == "init" && fn.Synthetic == "package initializer" && fn.Pkg != in.curInitPkg
}

var _ = types.Typ

package sym

// Goroutines (coroutines under the engine's scheduler), channels, select, sync and atomic
// intrinsics, and happens-before race tracking.

import (
	"fmt"
	"os"
	"go/token"
	"go/types"
	"strings"

	"golang.org/x/tools/go/ssa"
)

type yieldKind int

const (
	yBlocked yieldKind = iota
	yExit
	yPoint
	yPanic // pathEnd / engineError / uncaught target panic / engine bug
)

type yieldMsg struct {
	g    *goroutine
	kind yieldKind
	p    interface{}
}

type goroutine struct {
	id      int
	resume  chan bool
	done    bool
	blocked bool
	ready   func() bool
	desc    string
	started bool
	fn      value
	args    []value
	pos     token.Pos
	vc      vclock
	top     *frame
}

type abortSignal struct{}

type scheduler struct {
	gs      []*goroutine
	cur     *goroutine
	yield   chan yieldMsg
	explore bool
	fine    bool // sync operations are pre-emption points too (otherwise only spawn, nd.Yield and blocking)
	budget  int // remaining pre-emptions
	switches int
}

func (in *interpreter) newScheduler() *scheduler {
	return &scheduler{yield: make(chan yieldMsg)}
}

// spawn creates a goroutine for fn(args).
func (in *interpreter) spawn(fr *frame, fn value, args []value, pos token.Pos) *goroutine {
	s := in.sched
	if s == nil {
		// goroutines started by package initialisers are not run
		return nil
	}
	g := &goroutine{id: len(s.gs), resume: make(chan bool), fn: fn, args: args, pos: pos}
	if in.hb != nil {
		if fr != nil && fr.g != nil {
			// publish, then advance: what the parent does after the go statement is not ordered before the child
			g.vc = fr.g.vc.clone()
			fr.g.vc.tick(fr.g.id)
		}
		g.vc.tick(g.id)
	}
	s.gs = append(s.gs, g)
	if len(s.gs) > in.cfg.MaxGoroutines {
		panic(engineError{fmt.Sprintf("goroutine bound %d exceeded", in.cfg.MaxGoroutines)})
	}
	go func() {
		if !<-g.resume {
			g.done = true
			s.yield <- yieldMsg{g, yExit, nil}
			return
		}
		g.started = true
		kind, pv := yExit, interface{}(nil)
		func() {
			defer func() {
				if p := recover(); p != nil {
					if _, ok := p.(abortSignal); ok {
						kind = yExit
						return
					}
					kind, pv = yPanic, p
				}
			}()
			top := &frame{i: in, g: g, fn: in.harnessFn}
			g.top = top
			call(in, top, pos, fn, args)
		}()
		g.done = true
		s.yield <- yieldMsg{g, kind, pv}
	}()
	if fr != nil && s.explore {
		in.yieldPoint(fr)
	}
	return g
}

// park blocks the current goroutine until ready() holds.
func (in *interpreter) park(fr *frame, ready func() bool, desc string) {
	g := fr.g
	if g == nil {
		panic(engineError{"blocking operation outside a goroutine: " + desc})
	}
	for !ready() {
		g.blocked = true
		g.ready = ready
		g.desc = desc
		in.sched.yield <- yieldMsg{g, yBlocked, nil}
		if !<-g.resume {
			panic(abortSignal{})
		}
		g.blocked = false
	}
}

// schedPoint gives the scheduler the opportunity to pre-empt the current goroutine.
func (in *interpreter) schedPoint(fr *frame) {
	if s := in.sched; s == nil || !s.fine {
		return
	}
	in.yieldPoint(fr)
}

// yieldPoint is a pre-emption point in every exploring mode.
func (in *interpreter) yieldPoint(fr *frame) {
	s := in.sched
	if s == nil || !s.explore || s.budget <= 0 || fr.g == nil {
		return
	}
	others := 0
	for _, g := range s.gs {
		if g != fr.g && !g.done && (!g.blocked || g.ready()) {
			others++
		}
	}
	if others == 0 {
		return
	}
	s.yield <- yieldMsg{fr.g, yPoint, nil}
	if !<-fr.g.resume {
		panic(abortSignal{})
	}
}

// runGoroutines drives the goroutines until the main goroutine exits or the path ends.
// It returns the panic payload that ended the path, if any.
func (in *interpreter) runGoroutines(main *goroutine) (res interface{}) {
	s := in.sched
	next := main
	for {
		s.cur = next
		next.resume <- true
		msg := <-s.yield
		switch msg.kind {
		case yPanic:
			in.abortAll()
			return msg.p
		case yExit:
			if msg.g == main {
				in.abortAll()
				return nil
			}
		}
		// pick next
		var cands []*goroutine
		for _, g := range s.gs {
			if !g.done && (!g.blocked || g.ready()) {
				cands = append(cands, g)
			}
		}
		if len(cands) == 0 {
			var sb strings.Builder
			for _, g := range s.gs {
				if !g.done {
					fmt.Fprintf(&sb, " g%d blocked on %s;", g.id, g.desc)
				}
			}
			in.abortAll()
			return pathEnd{kind: endDeadlock, msg: "deadlock:" + sb.String()}
		}
		if len(cands) == 1 {
			next = cands[0]
			continue
		}
		if !s.explore {
			// deterministic: keep running the current goroutine if it can, else lowest id
			next = cands[0]
			for _, g := range cands {
				if g == msg.g {
					next = g
				}
			}
			continue
		}
		// exploring: a pre-emption (switching away from a runnable goroutine) costs budget
		curRunnable := false
		for _, g := range cands {
			if g == msg.g {
				curRunnable = true
			}
		}
		if curRunnable && s.budget <= 0 {
			next = msg.g
			continue
		}
		var k int
		func() {
			defer func() {
				if p := recover(); p != nil {
					res = p
				}
			}()
			k = in.path.choice(in, len(cands), "sched")
		}()
		if res != nil {
			in.abortAll()
			return res
		}
		next = cands[k]
		if curRunnable && next != msg.g {
			s.budget--
		}
		s.switches++
	}
}

func (in *interpreter) abortAll() {
	s := in.sched
	for _, g := range s.gs {
		for !g.done {
			g.resume <- false
			<-s.yield
		}
	}
}

// ---- channels ----

type sendReq struct {
	v    value
	done bool
	vc   vclock
}

type chanv struct {
	buf       []value
	bufvc     []vclock
	cap       int
	closed    bool
	elemT     types.Type
	sendq     []*sendReq
	recvWait  int
	closevc   vclock
	recvvc    vclock // for unbuffered/buffered back edges
}

func (in *interpreter) makeChan(size int, elem types.Type) *chanv {
	return &chanv{cap: size, elemT: elem}
}

func (fr *frame) chanSend(c *chanv, v value) {
	in := fr.i
	in.schedPoint(fr)
	if c == nil {
		in.park(fr, func() bool { return false }, "send on nil channel")
	}
	if c.closed {
		panic(targetPanic{iface{in.runtimeErrorString, "send on closed channel"}})
	}
	v = copyVal(v)
	var vc vclock
	if in.hb != nil {
		vc = fr.g.vc.clone()
		fr.g.vc.tick(fr.g.id)
	}
	if len(c.buf) < c.cap || (c.cap == 0 && c.recvWait-len(c.buf) > 0) {
		c.pushBuf(in, v, vc)
		return
	}
	req := &sendReq{v: v, vc: vc}
	c.sendq = append(c.sendq, req)
	in.logUndo(func() { c.removeReq(req) })
	in.park(fr, func() bool { return req.done || c.closed }, "chan send")
	if !req.done {
		panic(targetPanic{iface{in.runtimeErrorString, "send on closed channel"}})
	}
	if in.hb != nil {
		fr.g.vc.join(c.recvvc)
	}
}

func (c *chanv) removeReq(req *sendReq) {
	for i, r := range c.sendq {
		if r == req {
			c.sendq = append(c.sendq[:i:i], c.sendq[i+1:]...)
			return
		}
	}
}

func (c *chanv) pushBuf(in *interpreter, v value, vc vclock) {
	c.buf = append(c.buf, v)
	c.bufvc = append(c.bufvc, vc)
	in.logUndo(func() { c.buf = c.buf[:len(c.buf)-1]; c.bufvc = c.bufvc[:len(c.bufvc)-1] })
}

// tryRecv takes a value if one is available.
func (c *chanv) tryRecv(in *interpreter, g *goroutine) (v value, ok, got bool) {
	if len(c.buf) > 0 {
		v = c.buf[0]
		vc := c.bufvc[0]
		oldb, oldv := c.buf, c.bufvc
		c.buf = c.buf[1:]
		c.bufvc = c.bufvc[1:]
		in.logUndo(func() { c.buf, c.bufvc = oldb, oldv })
		if in.hb != nil && g != nil {
			g.vc.join(vc)
			c.recvvc = g.vc.clone()
			g.vc.tick(g.id)
		}
		if len(c.sendq) > 0 {
			req := c.sendq[0]
			c.popReq(in)
			c.pushBuf(in, req.v, req.vc)
			req.done = true
			in.logUndo(func() { req.done = false })
		}
		return v, true, true
	}
	if len(c.sendq) > 0 {
		req := c.sendq[0]
		c.popReq(in)
		req.done = true
		in.logUndo(func() { req.done = false })
		if in.hb != nil && g != nil {
			g.vc.join(req.vc)
			c.recvvc = g.vc.clone()
			g.vc.tick(g.id)
		}
		return req.v, true, true
	}
	if c.closed {
		if in.hb != nil && g != nil {
			g.vc.join(c.closevc)
		}
		return zero(c.elemT), false, true
	}
	return nil, false, false
}

func (c *chanv) popReq(in *interpreter) {
	old := c.sendq
	c.sendq = c.sendq[1:]
	in.logUndo(func() { c.sendq = old })
}

func (c *chanv) recvReady() bool {
	return len(c.buf) > 0 || len(c.sendq) > 0 || c.closed
}

func (fr *frame) chanRecv(instr *ssa.UnOp, c *chanv) value {
	in := fr.i
	in.schedPoint(fr)
	if c == nil {
		in.park(fr, func() bool { return false }, "receive from nil channel")
	}
	if !c.recvReady() {
		c.recvWait++
		in.park(fr, c.recvReady, "chan receive")
		c.recvWait--
	}
	v, ok, got := c.tryRecv(in, fr.g)
	if !got {
		panic("chanRecv: not ready after park")
	}
	if instr != nil && instr.CommaOk {
		return tuple{v, ok}
	}
	return v
}

func (fr *frame) chanClose(c *chanv) {
	in := fr.i
	in.schedPoint(fr)
	if c == nil {
		panic(targetPanic{iface{in.runtimeErrorString, "close of nil channel"}})
	}
	if c.closed {
		panic(targetPanic{iface{in.runtimeErrorString, "close of closed channel"}})
	}
	c.closed = true
	in.logUndo(func() { c.closed = false })
	if in.hb != nil {
		c.closevc = fr.g.vc.clone()
		fr.g.vc.tick(fr.g.id)
	}
}

func (fr *frame) doSelect(instr *ssa.Select) value {
	in := fr.i
	in.schedPoint(fr)
	type scase struct {
		c    *chanv
		send bool
		v    value
	}
	var cases []scase
	for _, st := range instr.States {
		c, _ := fr.get(st.Chan).(*chanv)
		sc := scase{c: c, send: st.Dir == types.SendOnly}
		if sc.send {
			sc.v = fr.get(st.Send)
		}
		cases = append(cases, sc)
	}
	readyIdx := func() []int {
		var r []int
		for i, sc := range cases {
			if sc.c == nil {
				continue
			}
			if sc.send {
				if sc.c.closed || len(sc.c.buf) < sc.c.cap || (sc.c.cap == 0 && sc.c.recvWait-len(sc.c.buf) > 0) {
					r = append(r, i)
				}
			} else if sc.c.recvReady() {
				r = append(r, i)
			}
		}
		return r
	}
	rdy := readyIdx()
	if len(rdy) == 0 {
		if !instr.Blocking {
			return fr.selectResult(instr, -1, nil, false)
		}
		in.park(fr, func() bool { return len(readyIdx()) > 0 }, "select")
		rdy = readyIdx()
	}
	chosen := rdy[0]
	if len(rdy) > 1 {
		chosen = rdy[in.path.choice(in, len(rdy), "select")]
	}
	sc := cases[chosen]
	if sc.send {
		if sc.c.closed {
			panic(targetPanic{iface{in.runtimeErrorString, "send on closed channel"}})
		}
		var vc vclock
		if in.hb != nil {
			vc = fr.g.vc.clone()
			fr.g.vc.tick(fr.g.id)
		}
		sc.c.pushBuf(in, copyVal(sc.v), vc)
		return fr.selectResult(instr, chosen, nil, false)
	}
	v, ok, _ := sc.c.tryRecv(in, fr.g)
	return fr.selectResult(instr, chosen, v, ok)
}

func (fr *frame) selectResult(instr *ssa.Select, chosen int, recv value, recvOk bool) value {
	r := tuple{chosen, recvOk}
	for i, st := range instr.States {
		if st.Dir == types.RecvOnly {
			var v value
			if i == chosen && recvOk {
				v = recv
			} else {
				v = zero(st.Chan.Type().Underlying().(*types.Chan).Elem())
			}
			r = append(r, v)
		}
	}
	return r
}

// ---- sync objects (state kept in engine side tables keyed by the object's address) ----

type syncObj struct {
	locked   bool
	readers  int
	wwait    int
	count    int64
	vc       vclock
	rvc      vclock // RWMutex: what readers published on RUnlock (acquired by writers only)
	poolObjs []value
}

func (in *interpreter) syncOf(p value) *syncObj {
	key, ok := p.(*value)
	if !ok || key == nil {
		in.rtPanic("invalid memory address or nil pointer dereference (sync object)")
	}
	so := in.syncTab()[key]
	if so == nil {
		so = &syncObj{}
		in.syncTab()[key] = so
		tab := in.syncTab()
		in.logUndo(func() { delete(tab, key) })
	}
	return so
}

func (in *interpreter) syncTab() map[*value]*syncObj {
	if in.syncs == nil {
		in.syncs = make(map[*value]*syncObj)
	}
	return in.syncs
}

func (in *interpreter) acquire(fr *frame, so *syncObj) {
	if in.hb != nil && fr.g != nil {
		fr.g.vc.join(so.vc)
	}
}

func (in *interpreter) release(fr *frame, so *syncObj) {
	if in.hb != nil && fr.g != nil {
		// publish, then advance the releasing goroutine's own component: its later accesses
		// are not covered by this release
		so.vc = so.vc.joined(fr.g.vc)
		fr.g.vc.tick(fr.g.id)
	}
}

func extMutexLock(fr *frame, args []value) value {
	in := fr.i
	in.schedPoint(fr)
	so := in.syncOf(args[0])
	if so.locked || so.readers > 0 {
		so.wwait++
		in.park(fr, func() bool { return !so.locked && so.readers == 0 }, "Mutex.Lock")
		so.wwait--
	}
	so.locked = true
	in.logUndo(func() { so.locked = false })
	in.acquire(fr, so)
	if in.hb != nil && fr.g != nil && so.rvc != nil {
		fr.g.vc.join(so.rvc) // a writer is ordered after the read sections that ended before it
	}
	return nil
}

func extMutexTryLock(fr *frame, args []value) value {
	in := fr.i
	in.schedPoint(fr)
	so := in.syncOf(args[0])
	if so.locked || so.readers > 0 {
		return false
	}
	so.locked = true
	in.logUndo(func() { so.locked = false })
	in.acquire(fr, so)
	if in.hb != nil && fr.g != nil && so.rvc != nil {
		fr.g.vc.join(so.rvc)
	}
	return true
}

func extMutexUnlock(fr *frame, args []value) value {
	in := fr.i
	so := in.syncOf(args[0])
	if !so.locked {
		panic(targetPanic{iface{in.runtimeErrorString, "fatal error: sync: unlock of unlocked mutex"}})
	}
	in.release(fr, so)
	so.locked = false
	in.logUndo(func() { so.locked = true })
	in.schedPoint(fr)
	return nil
}

func extRWMutexRLock(fr *frame, args []value) value {
	in := fr.i
	in.schedPoint(fr)
	so := in.syncOf(args[0])
	if so.locked || so.wwait > 0 {
		in.park(fr, func() bool { return !so.locked && so.wwait == 0 }, "RWMutex.RLock")
	}
	so.readers++
	in.logUndo(func() { so.readers-- })
	in.acquire(fr, so)
	return nil
}

func extRWMutexRUnlock(fr *frame, args []value) value {
	in := fr.i
	so := in.syncOf(args[0])
	if so.readers <= 0 {
		panic(targetPanic{iface{in.runtimeErrorString, "fatal error: sync: RUnlock of unlocked RWMutex"}})
	}
	if in.hb != nil && fr.g != nil {
		// read sections are not ordered with each other: a reader publishes to writers only
		so.rvc = so.rvc.joined(fr.g.vc)
		fr.g.vc.tick(fr.g.id)
	}
	so.readers--
	in.logUndo(func() { so.readers++ })
	in.schedPoint(fr)
	return nil
}

func extWaitGroupAdd(fr *frame, args []value) value {
	in := fr.i
	so := in.syncOf(args[0])
	d := asInt64(args[1])
	in.release(fr, so)
	so.count += d
	in.logUndo(func() { so.count -= d })
	if so.count < 0 {
		panic(targetPanic{iface{in.runtimeErrorString, "sync: negative WaitGroup counter"}})
	}
	if d < 0 {
		in.schedPoint(fr)
	}
	return nil
}

func extWaitGroupDone(fr *frame, args []value) value {
	return extWaitGroupAdd(fr, []value{args[0], int(-1)})
}

func extWaitGroupWait(fr *frame, args []value) value {
	in := fr.i
	in.schedPoint(fr)
	so := in.syncOf(args[0])
	in.park(fr, func() bool { return so.count == 0 }, "WaitGroup.Wait")
	in.acquire(fr, so)
	return nil
}

// sync.Pool: Get returns a previously Put object (the most recent one) or New().
func extPoolGet(fr *frame, args []value) value {
	in := fr.i
	so := in.syncOf(args[0])
	if n := len(so.poolObjs); n > 0 {
		k := n - 1
		if in.cfg.PoolChoice && n+1 > 1 {
			c := in.path.choice(in, n+1, "pool")
			if c == n {
				k = -1
			} else {
				k = c
			}
		}
		if k >= 0 {
			v := so.poolObjs[k]
			old := so.poolObjs
			nw := append(append([]value{}, old[:k]...), old[k+1:]...)
			so.poolObjs = nw
			in.logUndo(func() { so.poolObjs = old })
			in.acquire(fr, so)
			return v
		}
	}
	// New field
	pool := (*args[0].(*value)).(structure)
	st := deref(fr.fn.Params[0].Type()).Underlying().(*types.Struct)
	for i := 0; i < st.NumFields(); i++ {
		if st.Field(i).Name() == "New" {
			if isNonNilFunc(pool[i]) {
				if f, ok := pool[i].(*ssa.Function); ok && f == nil {
					break
				}
				return call(in, fr, token.NoPos, pool[i], nil)
			}
		}
	}
	return iface{}
}

func extPoolPut(fr *frame, args []value) value {
	in := fr.i
	so := in.syncOf(args[0])
	if x, ok := args[1].(iface); ok && x.t == nil {
		return nil
	}
	in.release(fr, so)
	old := so.poolObjs
	so.poolObjs = append(append([]value{}, old...), args[1])
	in.logUndo(func() { so.poolObjs = old })
	return nil
}

// ---- atomics ----

func (fr *frame) atomicCell(p value) *value {
	c, ok := p.(*value)
	if !ok || c == nil {
		fr.i.rtPanic("invalid memory address or nil pointer dereference (atomic)")
	}
	return c
}

func (in *interpreter) atomicSync(fr *frame, c *value, acquire, release bool) {
	if in.hb == nil || fr.g == nil {
		return
	}
	so := in.hb.atomics[c]
	if so == nil {
		so = &syncObj{}
		in.hb.atomics[c] = so
	}
	if acquire {
		fr.g.vc.join(so.vc)
	}
	if release {
		so.vc = so.vc.joined(fr.g.vc)
		fr.g.vc.tick(fr.g.id)
	}
}

func (in *interpreter) rawSet(c *value, v value) {
	if in.trailOn {
		in.trail = append(in.trail, trailEntry{p: c, old: *c})
	}
	*c = v
}

func extAtomicLoad(fr *frame, args []value) value {
	in := fr.i
	in.schedPoint(fr)
	c := fr.atomicCell(args[0])
	in.atomicSync(fr, c, true, false)
	return *c
}

func extAtomicStore(fr *frame, args []value) value {
	in := fr.i
	in.schedPoint(fr)
	c := fr.atomicCell(args[0])
	in.atomicSync(fr, c, false, true)
	in.rawSet(c, args[1])
	return nil
}

func extAtomicSwap(fr *frame, args []value) value {
	in := fr.i
	in.schedPoint(fr)
	c := fr.atomicCell(args[0])
	in.atomicSync(fr, c, true, true)
	old := *c
	in.rawSet(c, args[1])
	return old
}

func extAtomicAdd(fr *frame, args []value) value {
	in := fr.i
	in.schedPoint(fr)
	c := fr.atomicCell(args[0])
	in.atomicSync(fr, c, true, true)
	t := deref(fr.fn.Params[0].Type())
	nv := fr.binop(token.ADD, t, *c, args[1])
	in.rawSet(c, nv)
	return nv
}

func extAtomicAnd(fr *frame, args []value) value {
	in := fr.i
	c := fr.atomicCell(args[0])
	in.atomicSync(fr, c, true, true)
	t := deref(fr.fn.Params[0].Type())
	old := *c
	in.rawSet(c, fr.binop(token.AND, t, old, args[1]))
	return old
}

func extAtomicOr(fr *frame, args []value) value {
	in := fr.i
	c := fr.atomicCell(args[0])
	in.atomicSync(fr, c, true, true)
	t := deref(fr.fn.Params[0].Type())
	old := *c
	in.rawSet(c, fr.binop(token.OR, t, old, args[1]))
	return old
}

func extAtomicCAS(fr *frame, args []value) value {
	in := fr.i
	in.schedPoint(fr)
	c := fr.atomicCell(args[0])
	in.atomicSync(fr, c, true, true)
	t := deref(fr.fn.Params[0].Type())
	eq := in.equals(t, *c, args[1])
	if fr.decide(eq) {
		in.rawSet(c, args[2])
		return true
	}
	return false
}

// atomic.Value: the value lives in field 0 (v any).
func extAtomicValueLoad(fr *frame, args []value) value {
	in := fr.i
	in.schedPoint(fr)
	c := fr.atomicCell(args[0])
	f := &(*c).(structure)[0]
	in.atomicSync(fr, f, true, false)
	return *f
}

func extAtomicValueStore(fr *frame, args []value) value {
	in := fr.i
	in.schedPoint(fr)
	c := fr.atomicCell(args[0])
	f := &(*c).(structure)[0]
	if x := args[1].(iface); x.t == nil {
		panic(targetPanic{iface{in.runtimeErrorString, "sync/atomic: store of nil value into Value"}})
	}
	in.atomicSync(fr, f, false, true)
	in.rawSet(f, args[1])
	return nil
}

// ---- happens-before tracking ----

type vclock map[int]int

func (v *vclock) tick(id int) {
	if *v == nil {
		*v = vclock{}
	}
	(*v)[id]++
}

func (v vclock) clone() vclock {
	n := make(vclock, len(v))
	for k, x := range v {
		n[k] = x
	}
	return n
}

func (v *vclock) join(o vclock) {
	if *v == nil {
		*v = vclock{}
	}
	for k, x := range o {
		if (*v)[k] < x {
			(*v)[k] = x
		}
	}
}

func (v vclock) joined(o vclock) vclock {
	n := v.clone()
	n.join(o)
	return n
}

type access struct {
	gid   int
	clock int
	where string
}

type shadow struct {
	w     access
	hasW  bool
	reads []access
}

type hbState struct {
	cells   map[*value]*shadow
	atomics map[*value]*syncObj
	races   int
}

func newHB() *hbState {
	return &hbState{cells: make(map[*value]*shadow), atomics: make(map[*value]*syncObj)}
}

func (in *interpreter) hbWhere() string {
	if in.curFrame == nil {
		return "?"
	}
	return fmt.Sprintf("%s%s", in.curFrame.fn, loc(in.prog.Fset, in.curPos))
}

func (h *hbState) cur(in *interpreter) *goroutine {
	if in.sched == nil {
		return nil
	}
	return in.sched.cur
}

func (h *hbState) skip(in *interpreter) bool {
	return in.curFrame != nil && in.curFrame.info != nil && in.curFrame.info.harness
}

func (h *hbState) onRead(in *interpreter, p *value) {
	g := h.cur(in)
	if g == nil || !in.trailOn || h.skip(in) {
		return
	}
	sh := h.cells[p]
	if sh == nil {
		sh = &shadow{}
		h.cells[p] = sh
	}
	if hbDebug && sh.hasW && sh.w.gid != g.id {
		fmt.Fprintf(os.Stderr, "hb read g%d at %s: last write g%d clock %d at %s; reader knows %d\n", g.id, in.hbWhere(), sh.w.gid, sh.w.clock, sh.w.where, g.vc[sh.w.gid])
	}
	if sh.hasW && sh.w.gid != g.id && sh.w.clock > g.vc[sh.w.gid] {
		panic(pathEnd{kind: endRace, msg: fmt.Sprintf("data race: read by g%d at %s after unsynchronised write by g%d at %s", g.id, in.hbWhere(), sh.w.gid, sh.w.where)})
	}
	for i := range sh.reads {
		if sh.reads[i].gid == g.id {
			sh.reads[i].clock = g.vc[g.id]
			sh.reads[i].where = in.hbWhere()
			return
		}
	}
	sh.reads = append(sh.reads, access{g.id, g.vc[g.id], in.hbWhere()})
}

func (h *hbState) onWrite(in *interpreter, p *value) {
	g := h.cur(in)
	if g == nil || !in.trailOn || h.skip(in) {
		return
	}
	sh := h.cells[p]
	if sh == nil {
		sh = &shadow{}
		h.cells[p] = sh
	}
	if sh.hasW && sh.w.gid != g.id && sh.w.clock > g.vc[sh.w.gid] {
		panic(pathEnd{kind: endRace, msg: fmt.Sprintf("data race: write by g%d at %s after unsynchronised write by g%d at %s", g.id, in.hbWhere(), sh.w.gid, sh.w.where)})
	}
	for _, r := range sh.reads {
		if r.gid != g.id && r.clock > g.vc[r.gid] {
			panic(pathEnd{kind: endRace, msg: fmt.Sprintf("data race: write by g%d at %s after unsynchronised read by g%d at %s", g.id, in.hbWhere(), r.gid, r.where)})
		}
	}
	sh.w = access{g.id, g.vc[g.id], in.hbWhere()}
	sh.hasW = true
	sh.reads = sh.reads[:0]
}

var hbDebug = os.Getenv("GOSYM_DEBUG") == "hb"

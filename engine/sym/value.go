package sym

// Values (adapted from golang.org/x/tools/go/ssa/interp, BSD-style license, The Go Authors).
//
// All interpreter values are "boxed" in the empty interface, value.
// The range of possible dynamic types within value are:
//
// - bool, numbers (all built-in int/float types are distinguished), string   -- concrete scalars
// - *Term       --- a symbolic bool / integer / float64 (never a constant)
// - symstr      --- a string some of whose bytes are symbolic (each element uint8 or *Term)
// - *omap       --- maps (ordered entry list + index of concrete keys)
// - *chanv      --- channels
// - []value     --- slices
// - iface       --- interfaces
// - structure   --- structs
// - array       --- arrays
// - *value      --- pointers
// - symptr      --- pointer to a slice/array element with a symbolic index
// - *ssa.Function, *ssa.Builtin, *closure, *nativeFn --- functions
// - tuple, iter, bad, rtype, **deferred, uptr

import (
	"bytes"
	"fmt"
	"go/types"
	"sort"
	"strings"
	"unsafe"

	"golang.org/x/tools/go/ssa"
)

type value interface{}

type tuple []value

type array []value

type iface struct {
	t types.Type // never an "untyped" type
	v value
}

type structure []value

type symstr []value

// symptr is &base[idx] for a symbolic idx already known to be within [0,len(base)).
type symptr struct {
	base []value
	idx  *Term
}

// uptr is an unsafe.Pointer wrapping the original pointer value.
type uptr struct{ p value }

// nativeFn is a function value implemented by the engine.
type nativeFn struct {
	name string
	fn   func(fr *frame, args []value) value
}

type iter interface {
	next(fr *frame) tuple
}

type closure struct {
	Fn  *ssa.Function
	Env []value
}

type bad struct{}

type rtype struct {
	t types.Type
}

// ---- basic kind helpers ----

func basicOf(t types.Type) *types.Basic {
	b, _ := t.Underlying().(*types.Basic)
	return b
}

// intInfo returns width and signedness of an integer/bool basic kind.
func intInfo(k types.BasicKind) (w int, signed bool) {
	switch k {
	case types.Bool, types.UntypedBool:
		return SortBool, false
	case types.Int, types.Int64, types.UntypedInt:
		return 64, true
	case types.Int8:
		return 8, true
	case types.Int16:
		return 16, true
	case types.Int32, types.UntypedRune:
		return 32, true
	case types.Uint, types.Uint64, types.Uintptr:
		return 64, false
	case types.Uint8:
		return 8, false
	case types.Uint16:
		return 16, false
	case types.Uint32:
		return 32, false
	}
	return -1, false
}

// concreteOf builds the native concrete value of basic kind k from raw bits.
func concreteOf(k types.BasicKind, v uint64) value {
	switch k {
	case types.Bool, types.UntypedBool:
		return v != 0
	case types.Int, types.UntypedInt:
		return int(v)
	case types.Int8:
		return int8(v)
	case types.Int16:
		return int16(v)
	case types.Int32, types.UntypedRune:
		return int32(v)
	case types.Int64:
		return int64(v)
	case types.Uint:
		return uint(v)
	case types.Uint8:
		return uint8(v)
	case types.Uint16:
		return uint16(v)
	case types.Uint32:
		return uint32(v)
	case types.Uint64:
		return v
	case types.Uintptr:
		return uintptr(v)
	}
	panic(fmt.Sprintf("concreteOf: kind %v", k))
}

// rawBits returns the bits of a concrete integer/bool value and its width/signedness.
func rawBits(x value) (v uint64, w int, signed bool, ok bool) {
	switch x := x.(type) {
	case bool:
		if x {
			return 1, SortBool, false, true
		}
		return 0, SortBool, false, true
	case int:
		return uint64(x), 64, true, true
	case int8:
		return uint64(x), 8, true, true
	case int16:
		return uint64(x), 16, true, true
	case int32:
		return uint64(x), 32, true, true
	case int64:
		return uint64(x), 64, true, true
	case uint:
		return uint64(x), 64, false, true
	case uint8:
		return uint64(x), 8, false, true
	case uint16:
		return uint64(x), 16, false, true
	case uint32:
		return uint64(x), 32, false, true
	case uint64:
		return x, 64, false, true
	case uintptr:
		return uint64(x), 64, false, true
	}
	return 0, 0, false, false
}

// termOf converts a scalar value (concrete or symbolic) to a term.
func (in *interpreter) termOf(x value) *Term {
	switch x := x.(type) {
	case *Term:
		return x
	case float64:
		return in.ts.FConst(x)
	case float32:
		return in.ts.FConst(float64(x))
	}
	v, w, _, ok := rawBits(x)
	if !ok {
		panic(fmt.Sprintf("termOf: %T", x))
	}
	return in.ts.Const(w, v)
}

// fromTerm normalises a term of Go type t: constants become native values.
func fromTerm(tm *Term, t types.Type) value {
	if tm.op == OpConst {
		b := basicOf(t)
		if b == nil {
			panic(fmt.Sprintf("fromTerm: non-basic type %s", t))
		}
		return concreteOf(b.Kind(), tm.k)
	}
	if tm.op == OpFConst {
		f := float64frombits(tm.k)
		if b := basicOf(t); b != nil && b.Kind() == types.Float32 {
			return float32(f)
		}
		return f
	}
	return tm
}

func isSym(x value) bool {
	_, ok := x.(*Term)
	return ok
}

// byteVal normalises a byte-sized term.
func byteVal(tm *Term) value {
	if tm.op == OpConst {
		return uint8(tm.k)
	}
	return tm
}

// mkString normalises a byte vector to string (all concrete) or symstr.
func mkString(bs []value) value {
	allc := true
	for _, b := range bs {
		if _, ok := b.(uint8); !ok {
			allc = false
			break
		}
	}
	if allc {
		buf := make([]byte, len(bs))
		for i, b := range bs {
			buf[i] = b.(uint8)
		}
		return string(buf)
	}
	out := make(symstr, len(bs))
	copy(out, bs)
	return out
}

func strBytes(x value) []value {
	switch x := x.(type) {
	case string:
		out := make([]value, len(x))
		for i := 0; i < len(x); i++ {
			out[i] = x[i]
		}
		return out
	case symstr:
		return []value(x)
	}
	panic(fmt.Sprintf("strBytes: %T", x))
}

func strLen(x value) int {
	switch x := x.(type) {
	case string:
		return len(x)
	case symstr:
		return len(x)
	}
	panic(fmt.Sprintf("strLen: %T", x))
}

// ---- equality ----

func (x array) eq(in *interpreter, t types.Type, _y interface{}) value {
	y := _y.(array)
	tElt := t.Underlying().(*types.Array).Elem()
	var acc value = true
	for i, xi := range x {
		acc = in.and(acc, in.equals(tElt, xi, y[i]))
		if acc == false {
			return false
		}
	}
	return acc
}

func (x structure) eq(in *interpreter, t types.Type, _y interface{}) value {
	y := _y.(structure)
	tStruct := t.Underlying().(*types.Struct)
	var acc value = true
	for i, n := 0, tStruct.NumFields(); i < n; i++ {
		if f := tStruct.Field(i); f.Name() != "_" {
			acc = in.and(acc, in.equals(f.Type(), x[i], y[i]))
			if acc == false {
				return false
			}
		}
	}
	return acc
}

// nil-tolerant variant of types.Identical.
func sameType(x, y types.Type) bool {
	if x == nil {
		return y == nil
	}
	return y != nil && types.Identical(x, y)
}

func (x iface) eq(in *interpreter, t types.Type, _y interface{}) value {
	y := _y.(iface)
	if !sameType(x.t, y.t) {
		return false
	}
	if x.t == nil {
		return true
	}
	return in.equals(x.t, x.v, y.v)
}

// and / or / not on bool-or-*Term values.
func (in *interpreter) and(a, b value) value {
	if a == false || b == false {
		return false
	}
	if a == true {
		return b
	}
	if b == true {
		return a
	}
	return fromTermBool(in.ts.BAnd(a.(*Term), b.(*Term)))
}

func (in *interpreter) or(a, b value) value {
	if a == true || b == true {
		return true
	}
	if a == false {
		return b
	}
	if b == false {
		return a
	}
	return fromTermBool(in.ts.BOr(a.(*Term), b.(*Term)))
}

func (in *interpreter) not(a value) value {
	switch a := a.(type) {
	case bool:
		return !a
	case *Term:
		return fromTermBool(in.ts.BNot(a))
	}
	panic(fmt.Sprintf("not: %T", a))
}

func fromTermBool(t *Term) value {
	if t.op == OpConst {
		return t.k != 0
	}
	return t
}

// equals returns x == y for type t as bool or *Term.
func (in *interpreter) equals(t types.Type, x, y value) value {
	// symbolic scalars
	if xt, ok := x.(*Term); ok {
		return in.eqTerms(xt, in.termOf(y))
	}
	if yt, ok := y.(*Term); ok {
		return in.eqTerms(in.termOf(x), yt)
	}
	switch x := x.(type) {
	case bool:
		return x == y.(bool)
	case int:
		return x == y.(int)
	case int8:
		return x == y.(int8)
	case int16:
		return x == y.(int16)
	case int32:
		return x == y.(int32)
	case int64:
		return x == y.(int64)
	case uint:
		return x == y.(uint)
	case uint8:
		return x == y.(uint8)
	case uint16:
		return x == y.(uint16)
	case uint32:
		return x == y.(uint32)
	case uint64:
		return x == y.(uint64)
	case uintptr:
		return x == y.(uintptr)
	case float32:
		return x == y.(float32)
	case float64:
		return x == y.(float64)
	case complex64:
		return x == y.(complex64)
	case complex128:
		return x == y.(complex128)
	case string:
		if ys, ok := y.(string); ok {
			return x == ys
		}
		return in.eqStrings(x, y)
	case symstr:
		return in.eqStrings(x, y)
	case *value:
		switch y := y.(type) {
		case *value:
			return x == y
		case symptr:
			return in.eqSymptr(y, x)
		}
	case symptr:
		switch y := y.(type) {
		case *value:
			return in.eqSymptr(x, y)
		case symptr:
			if len(x.base) > 0 && len(y.base) > 0 && &x.base[0] == &y.base[0] {
				return fromTermBool(in.ts.Eq(x.idx, y.idx))
			}
			return false
		}
	case *chanv:
		return x == y.(*chanv)
	case structure:
		return x.eq(in, t, y)
	case array:
		return x.eq(in, t, y)
	case iface:
		return x.eq(in, t, y)
	case rtype:
		return types.Identical(x.t, y.(rtype).t)
	case uptr:
		return x.p == y.(uptr).p
	case *omap:
		return x == y.(*omap)
	case *ssa.Function:
		if yf, ok := y.(*ssa.Function); ok {
			return x == yf
		}
		return false
	case *closure:
		if yc, ok := y.(*closure); ok {
			return x == yc
		}
		return false
	}
	panic(fmt.Sprintf("comparing uncomparable type %s (%T vs %T)", t, x, y))
}

func (in *interpreter) eqSymptr(p symptr, q *value) value {
	for i := range p.base {
		if &p.base[i] == q {
			return fromTermBool(in.ts.Eq(p.idx, in.ts.Const(64, uint64(i))))
		}
	}
	return false
}

func (in *interpreter) eqTerms(a, b *Term) value {
	if a.w == SortFloat {
		return fromTermBool(in.ts.FCmp(OpFEq, a, b))
	}
	return fromTermBool(in.ts.Eq(a, b))
}

func (in *interpreter) eqStrings(x, y value) value {
	xb, yb := strBytes(x), strBytes(y)
	if len(xb) != len(yb) {
		return false
	}
	var acc value = true
	for i := range xb {
		if xc, ok := xb[i].(uint8); ok {
			if yc, ok := yb[i].(uint8); ok {
				if xc != yc {
					return false
				}
				continue
			}
		}
		acc = in.and(acc, in.eqTerms(in.termOf(xb[i]), in.termOf(yb[i])))
		if acc == false {
			return false
		}
	}
	return acc
}

// ---- load / store ----

// load returns the value of type T in *addr.
func load(T types.Type, addr *value) value {
	switch T := T.Underlying().(type) {
	case *types.Struct:
		v := (*addr).(structure)
		a := make(structure, len(v))
		for i := range a {
			a[i] = load(T.Field(i).Type(), &v[i])
		}
		return a
	case *types.Array:
		v := (*addr).(array)
		a := make(array, len(v))
		for i := range a {
			if v[i] == nil {
				v[i] = zero(T.Elem())
			}
			a[i] = load(T.Elem(), &v[i])
		}
		return a
	default:
		return *addr
	}
}

// store stores value v of type T into *addr (logged on the undo trail).
func (in *interpreter) store(T types.Type, addr *value, v value) {
	switch T := T.Underlying().(type) {
	case *types.Struct:
		if *addr == nil {
			*addr = zero(T)
		}
		lhs := (*addr).(structure)
		rhs := v.(structure)
		for i := range lhs {
			in.store(T.Field(i).Type(), &lhs[i], rhs[i])
		}
	case *types.Array:
		lhs := (*addr).(array)
		rhs := v.(array)
		for i := range lhs {
			if lhs[i] == nil {
				lhs[i] = zero(T.Elem())
			}
			in.store(T.Elem(), &lhs[i], rhs[i])
		}
	default:
		in.set(addr, v)
	}
}

// set is the primitive logged cell write.
func (in *interpreter) set(addr *value, v value) {
	if in.trailOn {
		in.trail = append(in.trail, trailEntry{p: addr, old: *addr})
	}
	if in.hb != nil {
		in.hb.onWrite(in, addr)
	}
	*addr = v
}

type trailEntry struct {
	p    *value
	old  value
	undo func()
}

func (in *interpreter) logUndo(f func()) {
	if in.trailOn {
		in.trail = append(in.trail, trailEntry{undo: f})
	}
}

func (in *interpreter) rollback() {
	for k := len(in.trail) - 1; k >= 0; k-- {
		e := in.trail[k]
		if e.undo != nil {
			e.undo()
		} else {
			*e.p = e.old
		}
	}
	in.trail = in.trail[:0]
}

// copyVal makes an unaliased copy of an aggregate value.
func copyVal(v value) value {
	switch v := v.(type) {
	case structure:
		a := make(structure, len(v))
		for i := range v {
			a[i] = copyVal(v[i])
		}
		return a
	case array:
		a := make(array, len(v))
		for i := range v {
			a[i] = copyVal(v[i])
		}
		return a
	}
	return v
}

// ---- maps ----

type mentry struct {
	key, val value
	dead     bool
	skey     string // canonical string of a fully concrete key; "" when the key has symbolic parts
}

// omap is an insertion-ordered map. Fully concrete keys are indexed by a canonical string;
// keys with symbolic parts are compared by forking on equality.
type omap struct {
	keyType types.Type
	entries []*mentry
	index   map[string]*mentry
	nsym    int // live entries with symbolic keys
	live    int
	cell    value // stands for the whole map in happens-before tracking (as Go's race detector does)
}

func (m *omap) hbRead(fr *frame) {
	if m != nil && fr.i.hb != nil {
		fr.i.hb.onRead(fr.i, &m.cell)
	}
}

func (m *omap) hbWrite(fr *frame) {
	if m != nil && fr.i.hb != nil {
		fr.i.hb.onWrite(fr.i, &m.cell)
	}
}

func makeMap(kt types.Type) *omap {
	return &omap{keyType: kt, index: make(map[string]*mentry)}
}

// keyString renders a canonical string for a fully concrete key; ok=false if symbolic parts.
func keyString(sb *strings.Builder, v value) bool {
	switch v := v.(type) {
	case *Term, symstr:
		return false
	case symptr:
		return false
	case string:
		fmt.Fprintf(sb, "s%d:%s", len(v), v)
	case bool, int, int8, int16, int32, int64, uint, uint8, uint16, uint32, uint64, uintptr, float32, float64, complex64, complex128:
		fmt.Fprintf(sb, "%T%v,", v, v)
	case *value:
		fmt.Fprintf(sb, "p%p,", v)
	case *chanv:
		fmt.Fprintf(sb, "c%p,", v)
	case *omap:
		fmt.Fprintf(sb, "m%p,", v)
	case uptr:
		sb.WriteString("u")
		return keyString(sb, v.p)
	case structure:
		sb.WriteString("{")
		for _, f := range v {
			if !keyString(sb, f) {
				return false
			}
		}
		sb.WriteString("}")
	case array:
		sb.WriteString("[")
		for _, f := range v {
			if !keyString(sb, f) {
				return false
			}
		}
		sb.WriteString("]")
	case iface:
		if v.t == nil {
			sb.WriteString("nil,")
		} else {
			fmt.Fprintf(sb, "i(%s)", v.t.String())
			return keyString(sb, v.v)
		}
	case rtype:
		fmt.Fprintf(sb, "rt(%s)", v.t.String())
	case *ssa.Function:
		fmt.Fprintf(sb, "f%p,", v)
	case *closure:
		fmt.Fprintf(sb, "cl%p,", v)
	case nil:
		sb.WriteString("<nil>")
	default:
		panic(fmt.Sprintf("keyString: unhashable %T", v))
	}
	return true
}

func canonKey(k value) (string, bool) {
	var sb strings.Builder
	if keyString(&sb, k) {
		return sb.String(), true
	}
	return "", false
}

// find returns the entry whose key equals k, forking on symbolic equalities.
func (m *omap) find(fr *frame, k value) *mentry {
	if m == nil {
		return nil
	}
	in := fr.i
	sk, conc := canonKey(k)
	if conc {
		if e := m.index[sk]; e != nil && !e.dead {
			return e
		}
		if m.nsym == 0 {
			return nil
		}
	}
	for _, e := range m.entries {
		if e.dead {
			continue
		}
		if conc && e.skey != "" {
			continue // both concrete and different
		}
		eq := in.equals(m.keyType, e.key, k)
		if fr.decide(eq) {
			return e
		}
	}
	return nil
}

func (m *omap) lookup(fr *frame, k value) (value, bool) {
	m.hbRead(fr)
	e := m.find(fr, k)
	if e == nil {
		return nil, false
	}
	return e.val, true
}

func (m *omap) insert(fr *frame, k, v value) {
	in := fr.i
	m.hbWrite(fr)
	if e := m.find(fr, k); e != nil {
		old := e.val
		in.logUndo(func() { e.val = old })
		e.val = v
		return
	}
	e := &mentry{key: copyVal(k), val: v}
	if sk, ok := canonKey(k); ok {
		e.skey = sk
		m.index[sk] = e
	} else {
		m.nsym++
	}
	m.entries = append(m.entries, e)
	m.live++
	in.logUndo(func() {
		m.entries = m.entries[:len(m.entries)-1]
		m.live--
		if e.skey != "" {
			delete(m.index, e.skey)
		} else {
			m.nsym--
		}
	})
}

func (m *omap) delete(fr *frame, k value) {
	if m == nil {
		return
	}
	in := fr.i
	m.hbWrite(fr)
	e := m.find(fr, k)
	if e == nil {
		return
	}
	e.dead = true
	m.live--
	if e.skey != "" {
		delete(m.index, e.skey)
	} else {
		m.nsym--
	}
	in.logUndo(func() {
		e.dead = false
		m.live++
		if e.skey != "" {
			m.index[e.skey] = e
		} else {
			m.nsym++
		}
	})
}

func (m *omap) len() int {
	if m == nil {
		return 0
	}
	return m.live
}

type omapIter struct {
	m   *omap
	pos int
}

func (it *omapIter) next(fr *frame) tuple {
	if it.m != nil {
		for it.pos < len(it.m.entries) {
			e := it.m.entries[it.pos]
			it.pos++
			if !e.dead {
				return tuple{true, copyVal(e.key), copyVal(e.val)}
			}
		}
	}
	return tuple{false, nil, nil}
}

// sortedIter iterates over a snapshot ordered by canonical key (used where the
// harness wants a layout independent of insertion order).
func (m *omap) snapshotSorted() []*mentry {
	var es []*mentry
	for _, e := range m.entries {
		if !e.dead {
			es = append(es, e)
		}
	}
	sort.SliceStable(es, func(i, j int) bool { return es[i].skey < es[j].skey })
	return es
}

// ---- printing ----

func writeValue(buf *bytes.Buffer, v value) {
	switch v := v.(type) {
	case nil, bool, int, int8, int16, int32, int64, uint, uint8, uint16, uint32, uint64, uintptr, float32, float64, complex64, complex128, string:
		fmt.Fprintf(buf, "%v", v)
	case *Term:
		buf.WriteString("<sym ")
		s := v.String()
		if len(s) > 120 {
			s = s[:120] + "..."
		}
		buf.WriteString(s)
		buf.WriteString(">")
	case symstr:
		buf.WriteString("symstr[")
		for _, e := range v {
			if c, ok := e.(uint8); ok {
				fmt.Fprintf(buf, "%q ", c)
			} else {
				buf.WriteString("? ")
			}
		}
		buf.WriteString("]")
	case *omap:
		buf.WriteString("map[")
		if v != nil {
			for i, e := range v.entries {
				if e.dead {
					continue
				}
				if i > 0 {
					buf.WriteString(" ")
				}
				writeValue(buf, e.key)
				buf.WriteString(":")
				writeValue(buf, e.val)
			}
		}
		buf.WriteString("]")
	case *chanv:
		fmt.Fprintf(buf, "chan %p", v)
	case *value:
		if v == nil {
			buf.WriteString("<nil>")
		} else {
			fmt.Fprintf(buf, "%p", v)
		}
	case iface:
		fmt.Fprintf(buf, "(%s, ", v.t)
		writeValue(buf, v.v)
		buf.WriteString(")")
	case structure:
		buf.WriteString("{")
		for i, e := range v {
			if i > 0 {
				buf.WriteString(" ")
			}
			writeValue(buf, e)
		}
		buf.WriteString("}")
	case array:
		buf.WriteString("[")
		for i, e := range v {
			if i > 0 {
				buf.WriteString(" ")
			}
			writeValue(buf, e)
		}
		buf.WriteString("]")
	case []value:
		buf.WriteString("[")
		for i, e := range v {
			if i > 0 {
				buf.WriteString(" ")
			}
			writeValue(buf, e)
		}
		buf.WriteString("]")
	case *ssa.Function, *ssa.Builtin, *closure:
		fmt.Fprintf(buf, "%p", v)
	case rtype:
		buf.WriteString(v.t.String())
	case tuple:
		buf.WriteString("(")
		for i, e := range v {
			if i > 0 {
				buf.WriteString(", ")
			}
			writeValue(buf, e)
		}
		buf.WriteString(")")
	default:
		fmt.Fprintf(buf, "<%T>", v)
	}
}

func toString(v value) string {
	var b bytes.Buffer
	writeValue(&b, v)
	return b.String()
}

func float64frombits(b uint64) float64 { return *(*float64)(unsafe.Pointer(&b)) }

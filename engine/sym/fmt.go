package sym

// A small fmt: Sprintf/Errorf/Fprintf/Sprint/Fprint/... over interpreter values. Concrete
// arguments are rendered by the host fmt verb by verb; symbolic integers are rendered
// symbolically for %d/%o/%x (forking on the digit count).

import (
	"fmt"
	"go/token"
	"go/types"
	"strings"
)

type symPlaceholder struct{}

func (symPlaceholder) String() string { return "?sym?" }

type rawText string

func (r rawText) Format(f fmt.State, verb rune) { fmt.Fprint(f, string(r)) }

// toNative converts an interpreter value to a host value for fmt. verbStr tells whether
// Error()/String() methods apply.
func (fr *frame) toNative(x value, t types.Type, useMethods bool) interface{} {
	in := fr.i
	if it, ok := x.(iface); ok {
		if it.t == nil {
			return nil
		}
		return fr.toNative(it.v, it.t, useMethods)
	}
	if useMethods && t != nil {
		for _, name := range []string{"Error", "String"} {
			if m := in.findMethod(t, name); m != nil && m.Signature.Params().Len() == 0 && m.Signature.Results().Len() == 1 {
				if b := basicOf(m.Signature.Results().At(0).Type()); b != nil && b.Kind() == types.String {
					if p, ok := x.(*value); ok && p == nil {
						return rawText("<nil>")
					}
					r := call(in, fr, token.NoPos, m, []value{x})
					switch s := r.(type) {
					case string:
						return rawText(s)
					case symstr:
						return rawText(fr.placeholderString(s))
					}
				}
			}
		}
	}
	switch x := x.(type) {
	case nil:
		return nil
	case bool, int, int8, int16, int32, int64, uint, uint8, uint16, uint32, uint64, uintptr, float32, float64, complex64, complex128, string:
		return x
	case *Term:
		fr.noteFmtSym()
		return symPlaceholder{}
	case symstr:
		return fr.placeholderString(x)
	case []value:
		allBytes := len(x) > 0
		for _, e := range x {
			if _, ok := e.(uint8); !ok {
				allBytes = false
				break
			}
		}
		if t != nil {
			if st, ok := t.Underlying().(*types.Slice); ok {
				if b := basicOf(st.Elem()); b != nil && b.Kind() == types.Uint8 && len(x) == 0 {
					return []byte{}
				}
			}
		}
		if allBytes {
			out := make([]byte, len(x))
			for i, e := range x {
				out[i] = e.(uint8)
			}
			return out
		}
		var et types.Type
		if t != nil {
			if st, ok := t.Underlying().(*types.Slice); ok {
				et = st.Elem()
			}
		}
		out := make([]interface{}, len(x))
		for i, e := range x {
			out[i] = fr.toNative(e, et, useMethods)
		}
		return out
	case array:
		var et types.Type
		if t != nil {
			if at, ok := t.Underlying().(*types.Array); ok {
				et = at.Elem()
			}
		}
		out := make([]interface{}, len(x))
		for i, e := range x {
			out[i] = fr.toNative(e, et, useMethods)
		}
		return out
	case structure:
		var sb strings.Builder
		sb.WriteString("{")
		var st *types.Struct
		if t != nil {
			st, _ = t.Underlying().(*types.Struct)
		}
		for i, e := range x {
			if i > 0 {
				sb.WriteString(" ")
			}
			var ft types.Type
			if st != nil {
				ft = st.Field(i).Type()
			}
			fmt.Fprint(&sb, fr.toNative(e, ft, useMethods))
		}
		sb.WriteString("}")
		return rawText(sb.String())
	case *value:
		if x == nil {
			return rawText("<nil>")
		}
		return rawText(fmt.Sprintf("0x%x", in.addrOf(x)))
	case *omap:
		return rawText(toString(x))
	}
	return rawText(toString(x))
}

func (fr *frame) noteFmtSym() {
	if fr.i.path != nil {
		fr.i.fmtSym++
	}
}

func (fr *frame) placeholderString(s symstr) string {
	fr.noteFmtSym()
	out := make([]byte, len(s))
	for i, b := range s {
		if c, ok := b.(uint8); ok {
			out[i] = c
		} else {
			out[i] = '?'
		}
	}
	return string(out)
}

// symDigits renders a symbolic unsigned value in the given base with at least minDigits digits.
func (fr *frame) symDigits(t *Term, base uint64, minDigits int) []value {
	in := fr.i
	ts := in.ts
	w := int(t.w)
	if w < 8 {
		t = ts.ZExt(t, 8)
		w = 8
	}
	// number of digits: fork
	maxDigits := 1
	for lim := base; maxDigits < 64; maxDigits++ {
		if w < 64 && lim > mask(uint16(w)) {
			break
		}
		if lim > ^uint64(0)/base {
			maxDigits++
			break
		}
		lim *= base
	}
	n := 1
	pow := base
	if minDigits >= maxDigits {
		n = maxDigits // zero-padded to the full width of the type (%03o of a byte): no case split
	}
	for n < maxDigits && minDigits < maxDigits {
		if fr.decide(fromTermBool(ts.Cmp(OpUlt, t, ts.Const(w, pow)))) {
			break
		}
		n++
		if pow > ^uint64(0)/base {
			break
		}
		pow *= base
	}
	if n < minDigits {
		n = minDigits
	}
	out := make([]value, n)
	div := uint64(1)
	for i := n - 1; i >= 0; i-- {
		var d *Term
		if div == 0 {
			d = ts.Const(w, 0)
		} else {
			q := t
			if div > 1 {
				q = ts.Bin(OpUDiv, t, ts.Const(w, div))
			}
			d = ts.Bin(OpURem, q, ts.Const(w, base))
		}
		d8 := ts.Extract(d, 7, 0)
		var ch *Term
		if base <= 10 {
			ch = ts.Bin(OpAdd, d8, ts.Const(8, '0'))
		} else {
			ch = ts.Ite(ts.Cmp(OpUlt, d8, ts.Const(8, 10)), ts.Bin(OpAdd, d8, ts.Const(8, '0')), ts.Bin(OpAdd, d8, ts.Const(8, 'a'-10)))
		}
		out[i] = byteVal(ch)
		if div > ^uint64(0)/base {
			div = 0
		} else {
			div *= base
		}
	}
	return out
}

// formatSymInt renders a symbolic integer for verb d/o/x/v with optional zero padding/precision.
func (fr *frame) formatSymInt(x *Term, t types.Type, verb byte, width, prec int, zeroPad bool) []value {
	in := fr.i
	ts := in.ts
	base := uint64(10)
	switch verb {
	case 'o':
		base = 8
	case 'x':
		base = 16
	}
	signed := t != nil && isSignedType(t)
	var out []value
	if signed {
		neg := fromTermBool(ts.Cmp(OpSlt, x, ts.Const(int(x.w), 0)))
		if fr.decide(neg) {
			out = append(out, uint8('-'))
			x = ts.Neg(x)
		}
	}
	minDigits := 1
	if prec >= 0 {
		minDigits = prec
	} else if zeroPad && width > 0 {
		minDigits = width - len(out)
	}
	out = append(out, fr.symDigits(x, base, minDigits)...)
	for len(out) < width {
		out = append([]value{uint8(' ')}, out...)
	}
	return out
}

// sprintf implements the Printf family over interpreter values; returns bytes and the
// indexes of %w operands.
func (fr *frame) sprintf(format value, a []value) ([]value, []int) {
	fs, ok := format.(string)
	if !ok {
		fs = fr.placeholderString(format.(symstr))
	}
	var out []value
	var wrapped []int
	argi := 0
	emit := func(s string) {
		out = append(out, strBytes(s)...)
	}
	for i := 0; i < len(fs); {
		c := fs[i]
		if c != '%' {
			j := strings.IndexByte(fs[i:], '%')
			if j < 0 {
				j = len(fs) - i
			}
			emit(fs[i : i+j])
			i += j
			continue
		}
		// parse verb spec
		j := i + 1
		zeroPad := false
		for j < len(fs) && strings.IndexByte("+-# 0", fs[j]) >= 0 {
			if fs[j] == '0' {
				zeroPad = true
			}
			j++
		}
		width := 0
		for j < len(fs) && fs[j] >= '0' && fs[j] <= '9' {
			width = width*10 + int(fs[j]-'0')
			j++
		}
		prec := -1
		if j < len(fs) && fs[j] == '.' {
			j++
			prec = 0
			for j < len(fs) && fs[j] >= '0' && fs[j] <= '9' {
				prec = prec*10 + int(fs[j]-'0')
				j++
			}
		}
		if j >= len(fs) {
			emit("%!(NOVERB)")
			break
		}
		verb := fs[j]
		spec := fs[i : j+1]
		i = j + 1
		if verb == '%' {
			emit("%")
			continue
		}
		if argi >= len(a) {
			emit("%!" + string(verb) + "(MISSING)")
			continue
		}
		arg := a[argi]
		argi++
		if verb == 'w' {
			wrapped = append(wrapped, argi-1)
			spec = spec[:len(spec)-1] + "v"
			verb = 'v'
		}
		it, _ := arg.(iface)
		// symbolic integer?
		if st, ok := it.v.(*Term); ok && st.w != SortFloat && st.w != SortBool && strings.IndexByte("dvox", verb) >= 0 {
			out = append(out, fr.formatSymInt(st, it.t, verb, width, prec, zeroPad)...)
			continue
		}
		if ss, ok := it.v.(symstr); ok && (verb == 's' || verb == 'v') && width == 0 && prec < 0 {
			out = append(out, []value(ss)...)
			continue
		}
		if bs, ok := it.v.([]value); ok && verb == 's' && width == 0 && prec < 0 {
			allb := true
			for _, e := range bs {
				switch e.(type) {
				case uint8:
				case *Term:
				default:
					allb = false
				}
			}
			if allb {
				out = append(out, bs...)
				continue
			}
		}
		useMethods := strings.IndexByte("vsq", verb) >= 0
		if verb == 'T' {
			if it.t == nil {
				emit("<nil>")
			} else {
				emit(it.t.String())
			}
			continue
		}
		nat := fr.toNative(arg, nil, useMethods)
		emit(fmt.Sprintf(spec, nat))
	}
	if argi < len(a) {
		emit("%!(EXTRA)")
	}
	return out, wrapped
}

func (fr *frame) sprint(a []value, ln bool) []value {
	var out []value
	prevString := false
	for i, arg := range a {
		it, _ := arg.(iface)
		_, isStr := it.v.(string)
		if _, ok := it.v.(symstr); ok {
			isStr = true
		}
		if i > 0 && (ln || (!isStr && !prevString)) {
			out = append(out, uint8(' '))
		}
		prevString = isStr
		if st, ok := it.v.(*Term); ok && st.w != SortFloat && st.w != SortBool {
			out = append(out, fr.formatSymInt(st, it.t, 'd', 0, -1, false)...)
			continue
		}
		if ss, ok := it.v.(symstr); ok {
			out = append(out, []value(ss)...)
			continue
		}
		out = append(out, strBytes(fmt.Sprint(fr.toNative(arg, nil, true)))...)
	}
	if ln {
		out = append(out, uint8('\n'))
	}
	return out
}

func (fr *frame) writeTo(w value, bs []value) value {
	in := fr.i
	wi := w.(iface)
	if wi.t == nil {
		in.rtPanic("invalid memory address or nil pointer dereference (nil io.Writer)")
	}
	m := in.findMethod(wi.t, "Write")
	if m == nil {
		panic(engineError{"fmt.Fprint*: writer without Write method: " + wi.t.String()})
	}
	buf := make([]value, len(bs))
	copy(buf, bs)
	return call(in, fr, token.NoPos, m, []value{wi.v, buf})
}

func extSprintf(fr *frame, args []value) value {
	bs, _ := fr.sprintf(args[0], args[1].([]value))
	return mkString(bs)
}

func extSprint(fr *frame, args []value) value {
	return mkString(fr.sprint(args[0].([]value), false))
}

func extSprintln(fr *frame, args []value) value {
	return mkString(fr.sprint(args[0].([]value), true))
}

func extFprintf(fr *frame, args []value) value {
	bs, _ := fr.sprintf(args[1], args[2].([]value))
	return fr.writeTo(args[0], bs)
}

func extFprint(fr *frame, args []value) value {
	return fr.writeTo(args[0], fr.sprint(args[1].([]value), false))
}

func extFprintln(fr *frame, args []value) value {
	return fr.writeTo(args[0], fr.sprint(args[1].([]value), true))
}

func extPrintNop(fr *frame, args []value) value {
	return tuple{0, iface{}}
}

func extAppendf(fr *frame, args []value) value {
	bs, _ := fr.sprintf(args[1], args[2].([]value))
	return append(args[0].([]value), bs...)
}

func extErrorf(fr *frame, args []value) value {
	in := fr.i
	a := args[1].([]value)
	bs, wrapped := fr.sprintf(args[0], a)
	msg := mkString(bs)
	if len(wrapped) == 1 {
		if e, ok := a[wrapped[0]].(iface); ok && e.t != nil {
			pkg := in.prog.ImportedPackage("fmt")
			wt := pkg.Type("wrapError").Type()
			cell := value(structure{msg, e})
			return iface{t: types.NewPointer(wt), v: &cell}
		}
	}
	newFn := in.lookupFunc("errors", "New")
	return call(in, fr, token.NoPos, newFn, []value{msg})
}

// strconv formatting of symbolic integers (concrete arguments run the real code).
func (fr *frame) fmtSymStrconv(x value, base value, signed bool) ([]value, bool) {
	t, ok := x.(*Term)
	if !ok {
		return nil, false
	}
	b, ok := base.(int)
	if !ok || (b != 10 && b != 8 && b != 16) {
		panic(engineError{"strconv formatting of a symbolic integer in an unsupported base"})
	}
	verb := byte('d')
	switch b {
	case 8:
		verb = 'o'
	case 16:
		verb = 'x'
	}
	var typ types.Type = types.Typ[types.Uint64]
	if signed {
		typ = types.Typ[types.Int64]
	}
	return fr.formatSymInt(t, typ, verb, 0, -1, false), true
}

func extFormatUint(fr *frame, args []value) value {
	if bs, ok := fr.fmtSymStrconv(args[0], args[1], false); ok {
		return mkString(bs)
	}
	return useBody{}
}

func extFormatInt(fr *frame, args []value) value {
	if bs, ok := fr.fmtSymStrconv(args[0], args[1], true); ok {
		return mkString(bs)
	}
	return useBody{}
}

func extItoa(fr *frame, args []value) value {
	if bs, ok := fr.fmtSymStrconv(args[0], 10, true); ok {
		return mkString(bs)
	}
	return useBody{}
}

func extAppendUint(fr *frame, args []value) value {
	if bs, ok := fr.fmtSymStrconv(args[1], args[2], false); ok {
		return append(args[0].([]value), bs...)
	}
	return useBody{}
}

func extAppendInt(fr *frame, args []value) value {
	if bs, ok := fr.fmtSymStrconv(args[1], args[2], true); ok {
		return append(args[0].([]value), bs...)
	}
	return useBody{}
}

func init() {
	for k, v := range map[string]externalFn{
		"strconv.FormatUint": extFormatUint,
		"strconv.FormatInt":  extFormatInt,
		"strconv.Itoa":       extItoa,
		"strconv.AppendUint": extAppendUint,
		"strconv.AppendInt":  extAppendInt,
		"fmt.Sprintf":  extSprintf,
		"fmt.Sprint":   extSprint,
		"fmt.Sprintln": extSprintln,
		"fmt.Fprintf":  extFprintf,
		"fmt.Fprint":   extFprint,
		"fmt.Fprintln": extFprintln,
		"fmt.Printf":   extPrintNop,
		"fmt.Print":    extPrintNop,
		"fmt.Println":  extPrintNop,
		"fmt.Errorf":   extErrorf,
		"fmt.Appendf":  extAppendf,
	} {
		externals[k] = v
	}
}

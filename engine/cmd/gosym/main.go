// gosym — bounded symbolic execution of Go SSA with an SMT back end; check driver.
package main

import (
	"bufio"
	"encoding/json"
	"fmt"
	"os"
	"os/exec"
	"path/filepath"
	"regexp"
	"runtime/pprof"
	"sort"
	"strconv"
	"strings"
	"time"

	"gosym/sym"
)

const verifRoot = "/verif"

var harnessRoot = filepath.Join(verifRoot, "harness")

func main() {
	if len(os.Args) < 2 {
		usage()
	}
	if pf := os.Getenv("GOSYM_PROF"); pf != "" {
		f, _ := os.Create(pf)
		pprof.StartCPUProfile(f)
		defer pprof.StopCPUProfile()
	}
	code := realMain()
	sym.DumpForkProfile()
	pprof.StopCPUProfile()
	os.Exit(code)
}

func realMain() int {
	switch os.Args[1] {
	case "check":
		return cmdCheck(os.Args[2:])
	case "run":
		return cmdRun(os.Args[2:])
	case "replay":
		return cmdReplay(os.Args[2:])
	case "list":
		hs, err := sym.ScanHarnesses(harnessRoot)
		if err != nil {
			fmt.Fprintln(os.Stderr, err)
			os.Exit(2)
		}
		for _, h := range hs {
			fmt.Printf("%-6s %-28s %-18s quick=%d thorough=%d native=%v\n", h.Property, h.Name, h.PkgRel, len(h.Quick), len(h.Thorough), h.Native)
		}
	default:
		usage()
	}
	return 0
}

func usage() {
	fmt.Fprintln(os.Stderr, "usage: gosym check <PROPERTY> [--tier quick|thorough] [--harness NAME] [--workers N]\n       gosym run <HARNESS> [k=v ...] [--workers N] [--trace]\n       gosym replay <file.json>\n       gosym list")
	os.Exit(2)
}

// ---- known findings ----

type finding struct {
	Property string `json:"property"`
	ID       string `json:"id"`
	Status   string `json:"status"`
	Commit   string `json:"commit,omitempty"`
	What     string `json:"what"`
}

func loadFindings() []finding {
	var out []finding
	f, err := os.Open(filepath.Join(verifRoot, "known_findings.jsonl"))
	if err != nil {
		return nil
	}
	defer f.Close()
	sc := bufio.NewScanner(f)
	sc.Buffer(make([]byte, 1<<20), 1<<20)
	for sc.Scan() {
		line := strings.TrimSpace(sc.Text())
		if line == "" || strings.HasPrefix(line, "#") {
			continue
		}
		var fd finding
		if json.Unmarshal([]byte(line), &fd) == nil {
			out = append(out, fd)
		}
	}
	return out
}

var knownRe = regexp.MustCompile(`nd\.Known\("([^"]+)"`)

// knownIDsIn lists the finding ids referenced by the harness source file(s) of pkgRel.
func knownIDsIn(file string) []string {
	data, err := os.ReadFile(file)
	if err != nil {
		return nil
	}
	seen := map[string]bool{}
	var ids []string
	for _, m := range knownRe.FindAllStringSubmatch(string(data), -1) {
		if !seen[m[1]] {
			seen[m[1]] = true
			ids = append(ids, m[1])
		}
	}
	return ids
}

// ---- replay files ----

type replayFile struct {
	Property string          `json:"property"`
	Harness  string          `json:"harness"`
	Package  string          `json:"package"`
	Params   map[string]int  `json:"params"`
	Seed     int64           `json:"seed"`
	ND       []sym.NDRec     `json:"nd"`
	Failed   map[string]string `json:"failed"`
	RepoHead string          `json:"repo_head"`
	Created  string          `json:"created_by"`
}

func repoHead() string {
	out, err := exec.Command("git", "-C", sym.RepoTop, "rev-parse", "--short", "HEAD").Output()
	if err != nil {
		return "?"
	}
	return strings.TrimSpace(string(out))
}

func shapeString(m map[string]int) string {
	var ks []string
	for k := range m {
		ks = append(ks, k)
	}
	sort.Strings(ks)
	var parts []string
	for _, k := range ks {
		parts = append(parts, fmt.Sprintf("%s=%d", k, m[k]))
	}
	if len(parts) == 0 {
		return "-"
	}
	return strings.Join(parts, ",")
}

// nativeReplay runs the harness natively on the replay file; returns the verdict line.
func nativeReplay(h *sym.Harness, path string) (string, string) {
	ov, err := sym.BuildOverlay(harnessRoot, h.PkgRel, true)
	if err != nil {
		return "", err.Error()
	}
	scratch, err := os.MkdirTemp("", "gosym-replay-")
	if err != nil {
		return "", err.Error()
	}
	defer os.RemoveAll(scratch)
	modRoot := sym.RepoRoot
	sub := h.PkgRel
	ndImport := "github.com/facebookincubator/dns/dnsrocks/zzverif/nd"
	if h.PkgRel == "go-cdb-mods" || strings.HasPrefix(h.PkgRel, "go-cdb-mods/") {
		modRoot = sym.CdbModRoot
		sub = strings.TrimPrefix(strings.TrimPrefix(h.PkgRel, "go-cdb-mods"), "/")
		ndImport = "github.com/repustate/go-cdb/zzverif/nd"
	}
	// package name of the harness file
	pkgName := "main"
	if data, err := os.ReadFile(h.File); err == nil {
		if m := regexp.MustCompile(`(?m)^package\s+(\w+)`).FindStringSubmatch(string(data)); m != nil {
			pkgName = m[1]
		}
	}
	testSrc := fmt.Sprintf("package %s\n\nimport (\n\t\"testing\"\n\tnd %q\n)\n\nfunc TestVerifReplay(t *testing.T) {\n\tif v := nd.Run(%s); v != \"ok\" {\n\t\tt.Log(v)\n\t}\n}\n", pkgName, ndImport, h.Name)
	repl := map[string]string{}
	n := 0
	for dst, data := range ov {
		n++
		real := filepath.Join(scratch, fmt.Sprintf("f%d_%s", n, filepath.Base(dst)))
		if err := os.WriteFile(real, data, 0o644); err != nil {
			return "", err.Error()
		}
		repl[dst] = real
	}
	testReal := filepath.Join(scratch, "zz_verif_replay_test.go")
	os.WriteFile(testReal, []byte(testSrc), 0o644)
	pkgDir := filepath.Join(modRoot, sub)
	repl[filepath.Join(pkgDir, "zz_verif_replay_test.go")] = testReal
	ovJSON, _ := json.Marshal(map[string]interface{}{"Replace": repl})
	ovPath := filepath.Join(scratch, "overlay.json")
	os.WriteFile(ovPath, ovJSON, 0o644)
	for _, f := range []string{"go.mod", "go.sum"} {
		data, err := os.ReadFile(filepath.Join(modRoot, f))
		if err == nil {
			os.WriteFile(filepath.Join(scratch, f), data, 0o644)
		}
	}
	pattern := "./" + sub
	if sub == "" {
		pattern = "."
	}
	cmd := exec.Command("go", "test", "-vet=off", "-count=1", "-ldflags=-checklinkname=0", "-tags=verif",
		"-modfile="+filepath.Join(scratch, "go.mod"), "-overlay", ovPath, "-run", "^TestVerifReplay$", "-v", "-timeout", "120s", pattern)
	cmd.Dir = modRoot
	cmd.Env = append(os.Environ(), "GOFLAGS=-mod=mod", "GOPROXY=off", "GOSUMDB=off", "GOTOOLCHAIN=local", "VERIF_REPLAY="+path)
	out, _ := cmd.CombinedOutput()
	text := string(out)
	for _, line := range strings.Split(text, "\n") {
		if i := strings.Index(line, "VERIF-REPLAY: "); i >= 0 {
			return strings.TrimSpace(line[i+len("VERIF-REPLAY: "):]), text
		}
	}
	if strings.Contains(text, "panic: test timed out") {
		return "violated kind=hang label=hang", text
	}
	if strings.Contains(text, "fatal error:") || strings.Contains(text, "panic:") {
		return "violated kind=panic label=panic msg=crash", text
	}
	return "", text
}

// ---- evidence ----

type harnessEvidence struct {
	Name       string                   `json:"name"`
	Package    string                   `json:"package"`
	Shapes     []map[string]interface{} `json:"shapes"`
	Paths      int                      `json:"paths"`
	Completed  int                      `json:"paths_completed"`
	Infeasible int                      `json:"paths_infeasible"`
	ReachAssert int                     `json:"paths_reaching_assert"`
	Asserts    int                      `json:"assertions_discharged"`
	Queries    int                      `json:"solver_queries"`
	SolverS    float64                  `json:"solver_s"`
	Steps      int64                    `json:"ssa_instructions"`
	WitnessSat bool                     `json:"witness_sat"`
	Stubs      []string                 `json:"stubs"`
}

type checkState struct {
	prop       string
	tier       string
	seed       int64
	start      time.Time
	harnesses  []*harnessEvidence
	functions  map[string]bool
	violations int
	knownLines []string
	errors     []string
	samples    []interface{}
	totalPaths int
	symPaths   int
	solver     sym.SolverStats
	replayed   int
	assumptions []string
	bounds     map[string]string
}

func (cs *checkState) writeEvidence(exhaustive bool) {
	var fns []string
	for f := range cs.functions {
		fns = append(fns, f)
	}
	sort.Strings(fns)
	repoFns := []string{}
	for _, f := range fns {
		if strings.Contains(f, "facebookincubator/dns") || strings.Contains(f, "repustate/go-cdb") {
			if !strings.Contains(f, "zz_verif") {
				repoFns = append(repoFns, f)
			}
		}
	}
	var hparts []string
	for _, h := range cs.harnesses {
		var shp []string
		for _, s := range h.Shapes {
			shp = append(shp, fmt.Sprint(s["shape"]))
		}
		hparts = append(hparts, fmt.Sprintf("%s{%s}", h.Name, strings.Join(shp, " ")))
	}
	expl := fmt.Sprintf("Bounded symbolic execution (gosym: own Go-SSA symbolic executor; z3 5.1 (z3-new) on a pipe, cvc5 for floating point, cvc5/z3 4.8.12 fall-back) of the real functions of /repo's current working tree, loaded and translated on this run. "+
		"Every path of each harness shape was explored; on every path each assertion's negation was decided for all input values of that shape: by the SMT solver, or - when the assertion depends on a single variable of at most 8 bits, or on none - by exact evaluation over that variable's remaining domain (the queries counted below are the solver calls; schedule and pool choices are enumerated exhaustively by the executor). "+
		"Harnesses and shapes (= the bound): %s. Outside the bound: larger sizes than the listed shapes; see DESIGN.md section 4 for the property's stated cuts. "+
		"Loops are executed, not summarised: unwinding is complete for every shape or the run fails (exit 2).", strings.Join(hparts, "; "))
	if len(cs.errors) > 0 {
		expl += " THIS RUN WAS INCONCLUSIVE: " + strings.Join(cs.errors, " | ")
	}
	if len(cs.samples) == 0 {
		cs.samples = append(cs.samples, "no path completed")
	}
	ev := map[string]interface{}{
		"property_id": cs.prop,
		"tier":        cs.tier,
		"seed":        cs.seed,
		"level":       "other",
		"coverage": map[string]interface{}{
			"explanation":         expl,
			"evaluations":         cs.totalPaths,
			"distinct_nontrivial": cs.symPaths,
			"rule":                "evaluations = execution paths explored (each a distinct decision prefix, so distinct by construction); distinct_nontrivial = completed paths that took at least one solver-decided branch",
			"samples":             cs.samples,
			"exhaustive":          exhaustive,
			"harnesses":           cs.harnesses,
			"functions_encoded":   repoFns,
			"functions_encoded_total": len(fns),
			"solver": map[string]interface{}{
				"queries": cs.solver.Queries, "sat": cs.solver.Sat, "unsat": cs.solver.Unsat, "unknown": cs.solver.Unknown,
				"fallback_queries": cs.solver.Fallbacks, "solver_s": cs.solver.Time.Seconds(), "max_query_s": cs.solver.MaxQuery.Seconds(),
			},
			"replayed":       cs.replayed,
			"known_findings": cs.knownLines,
			"inconclusive":   cs.errors,
		},
		"assumptions": cs.assumptions,
		"wall_s":      time.Since(cs.start).Seconds(),
		"violations":  cs.violations,
	}
	evDir := filepath.Join(verifRoot, "evidence")
	if sym.RepoTop != "/repo" {
		evDir = filepath.Join(os.TempDir(), "gosym_dev_evidence") // development run against a scratch tree
	}
	os.MkdirAll(evDir, 0o755)
	data, _ := json.MarshalIndent(ev, "", " ")
	os.WriteFile(filepath.Join(evDir, cs.prop+".json"), data, 0o644)
}

// ---- check ----

func parseFlags(args []string) (pos []string, flags map[string]string) {
	flags = map[string]string{}
	for i := 0; i < len(args); i++ {
		a := args[i]
		if strings.HasPrefix(a, "--") {
			k := strings.TrimPrefix(a, "--")
			if j := strings.Index(k, "="); j >= 0 {
				flags[k[:j]] = k[j+1:]
			} else if i+1 < len(args) && !strings.HasPrefix(args[i+1], "--") && !(k == "trace" || k == "replay" || k == "observed" || k == "funcs") {
				flags[k] = args[i+1]
				i++
			} else {
				flags[k] = "true"
			}
		} else {
			pos = append(pos, a)
		}
	}
	return
}

func baseConfig(flags map[string]string) *sym.Config {
	cfg := sym.DefaultConfig()
	if w, err := strconv.Atoi(flags["workers"]); err == nil {
		cfg.Workers = w
	}
	if w, err := strconv.Atoi(flags["maxpaths"]); err == nil {
		cfg.MaxPaths = w
	}
	if w, err := strconv.Atoi(flags["timeout"]); err == nil {
		cfg.SolverTimeoutMs = w
	}
	if flags["trace"] == "true" {
		cfg.Trace = true
	}
	if s, err := strconv.ParseInt(os.Getenv("VERIF_SEED"), 10, 64); err == nil {
		cfg.Seed = s
	}
	return cfg
}

func cmdCheck(args []string) int {
	pos, flags := parseFlags(args)
	if len(pos) < 1 {
		usage()
	}
	prop := pos[0]
	tier := flags["tier"]
	if tier == "" {
		tier = os.Getenv("VERIF_TIER")
	}
	if tier == "" {
		tier = "quick"
	}
	base := baseConfig(flags)
	cs := &checkState{prop: prop, tier: tier, seed: base.Seed, start: time.Now(), functions: map[string]bool{}}
	defer func() {}()

	all, err := sym.ScanHarnesses(harnessRoot)
	if err != nil {
		fmt.Println("INCONCLUSIVE property=" + prop + " " + err.Error())
		return 2
	}
	var hs []*sym.Harness
	for _, h := range all {
		if h.Property == prop && (flags["harness"] == "" || flags["harness"] == h.Name) {
			hs = append(hs, h)
		}
	}
	if len(hs) == 0 {
		fmt.Println("INCONCLUSIVE property=" + prop + " no harness registered")
		return 2
	}
	findings := loadFindings()
	known := map[string]finding{}
	for _, f := range findings {
		if f.Property == prop && f.Status == "known" {
			known[f.ID] = f
		}
	}

	byPkg := map[string][]*sym.Harness{}
	var pkgs []string
	for _, h := range hs {
		if _, ok := byPkg[h.PkgRel]; !ok {
			pkgs = append(pkgs, h.PkgRel)
		}
		byPkg[h.PkgRel] = append(byPkg[h.PkgRel], h)
	}
	sort.Strings(pkgs)

	exit := 0
	exhaustive := true
	confirmed := map[string]bool{}
	for _, pkgRel := range pkgs {
		ld, err := sym.Load(harnessRoot, pkgRel)
		if err != nil {
			cs.errors = append(cs.errors, err.Error())
			fmt.Printf("INCONCLUSIVE property=%s package=%s: %v\n", prop, pkgRel, err)
			exit = 2
			exhaustive = false
			continue
		}
		for _, h := range byPkg[pkgRel] {
			fn := ld.Pkg.Func(h.Name)
			if fn == nil {
				cs.errors = append(cs.errors, "harness function not found: "+h.Name)
				exit = 2
				exhaustive = false
				continue
			}
			substs, stubNames, err := resolveSubsts(ld, h)
			if err != nil {
				cs.errors = append(cs.errors, err.Error())
				fmt.Printf("INCONCLUSIVE property=%s harness=%s: %v\n", prop, h.Name, err)
				exit = 2
				exhaustive = false
				continue
			}
			shapes := h.Quick
			if tier == "thorough" {
				shapes = h.Thorough
			}
			he := &harnessEvidence{Name: h.Name, Package: pkgRel, Stubs: stubNames}
			cs.harnesses = append(cs.harnesses, he)
			ids := knownIDsIn(h.File)
			for _, shape := range shapes {
				cfg := *base
				cfg.Params = shape
				cfg.Known = map[string]bool{}
				for id := range known {
					cfg.Known[id] = true
				}
				applyOpts(&cfg, h)
				t0 := time.Now()
				out := sym.Explore(ld.Prog, fn, substs, &cfg)
				st := out.Stats
				he.Shapes = append(he.Shapes, map[string]interface{}{
					"shape": shapeString(shape), "paths": st.Paths, "completed": st.Completed, "infeasible": st.Infeasible,
					"asserts": st.Asserts, "queries": st.Solver.Queries, "wall_s": time.Since(t0).Seconds(), "max_decisions": st.MaxDecisions,
				})
				he.Paths += st.Paths
				he.Completed += st.Completed
				he.Infeasible += st.Infeasible
				he.ReachAssert += st.ReachingAssert
				he.Asserts += st.Asserts
				he.Queries += st.Solver.Queries
				he.SolverS += st.Solver.Time.Seconds()
				he.Steps += st.Steps
				he.WitnessSat = he.WitnessSat || st.WitnessSat
				cs.totalPaths += st.Paths
				cs.symPaths += st.SymbolicPaths
				addSolver(&cs.solver, st.Solver)
				for _, f := range st.Functions {
					cs.functions[f] = true
				}
				for _, s := range st.Samples {
					if len(cs.samples) < 6 {
						s["harness"] = h.Name
						s["shape"] = shapeString(shape)
						cs.samples = append(cs.samples, s)
					}
				}
				fmt.Printf("  %s %s [%s]: paths=%d completed=%d infeasible=%d asserts=%d queries=%d solver=%.1fs wall=%.1fs violations=%d\n",
					prop, h.Name, shapeString(shape), st.Paths, st.Completed, st.Infeasible, st.Asserts, st.Solver.Queries, st.Solver.Time.Seconds(), time.Since(t0).Seconds(), len(out.Violations))
				if len(out.Errors) > 0 {
					exhaustive = false
					for _, e := range out.Errors {
						cs.errors = append(cs.errors, h.Name+"["+shapeString(shape)+"]: "+firstLines(e, 30))
						fmt.Printf("INCONCLUSIVE property=%s harness=%s shape=%s: %s\n", prop, h.Name, shapeString(shape), firstLines(e, 30))
					}
					if exit == 0 {
						exit = 2
					}
				}
				if st.Completed == 0 && len(out.Violations) == 0 && len(out.Errors) == 0 {
					cs.errors = append(cs.errors, h.Name+"["+shapeString(shape)+"]: vacuous (no path reached the end of the harness)")
					fmt.Printf("INCONCLUSIVE property=%s harness=%s shape=%s: vacuous\n", prop, h.Name, shapeString(shape))
					exhaustive = false
					if exit == 0 {
						exit = 2
					}
				}
				for vi, v := range out.Violations {
					path := writeReplay(prop, h, pkgRel, shape, v, base.Seed, vi)
					ok, how := confirmViolation(ld, h, fn, substs, &cfg, v, path)
					cs.replayed++
					if ok {
						cs.violations++
						fmt.Printf("VIOLATION property=%s replay=%s\n", prop, path)
						fmt.Printf("  harness=%s shape=%s kind=%s label=%s msg=%s confirmed=%s\n", h.Name, shapeString(shape), v.Kind, v.Label, firstLines(v.Msg, 3), how)
						exit = 1
					} else {
						fmt.Printf("UNCONFIRMED property=%s harness=%s shape=%s kind=%s label=%s replay=%s: %s\n", prop, h.Name, shapeString(shape), v.Kind, v.Label, path, how)
						cs.errors = append(cs.errors, "unconfirmed counterexample in "+h.Name+": "+how)
						exhaustive = false
						if exit == 0 {
							exit = 2
						}
					}
				}
				// confirmation runs for known findings referenced by this harness
				for _, id := range ids {
					kf, isKnown := known[id]
					if !isKnown || confirmed[id] {
						continue
					}
					ccfg := cfg
					ccfg.Confirm = id
					ccfg.MaxViolations = 1
					ccfg.MaxViolations = 64
					cout := sym.Explore(ld.Prog, fn, substs, &ccfg)
					addSolver(&cs.solver, cout.Stats.Solver)
					cs.totalPaths += cout.Stats.Paths
					var hit *sym.Violation
					for _, v := range cout.Violations {
						if v.Known == id {
							hit = v
							break
						}
					}
					if hit != nil {
						confirmed[id] = true
						line := fmt.Sprintf("KNOWN-FINDING: property=%s %s: %s (reproduced: harness=%s shape=%s label=%s)", prop, id, kf.What, h.Name, shapeString(shape), hit.Label)
						fmt.Println(line)
						cs.knownLines = append(cs.knownLines, line)
					}
				}
			}
		}
		ld.Cleanup()
	}
	for id, kf := range known {
		if !confirmed[id] {
			fmt.Printf("NOTE property=%s known finding %s (%s) did not reproduce on this tree within the explored shapes\n", prop, id, kf.What)
		}
	}
	cs.assumptions = append(cs.assumptions,
		"Go semantics as implemented by the gosym executor (derived from golang.org/x/tools/go/ssa/interp); SMT solvers z3/cvc5 are trusted",
		"map iteration order = insertion order; formatted text of symbolic values other than integers is a placeholder (error/log messages only)",
		"logging packages (glog, log, logrus) have empty bodies; sync primitives, atomics, bytealg, reflectlite/errors are engine intrinsics with their documented semantics",
	)
	for _, he := range cs.harnesses {
		for _, s := range he.Stubs {
			cs.assumptions = append(cs.assumptions, "stub: "+s)
		}
	}
	cs.writeEvidence(exhaustive && exit != 2)
	if exit == 0 {
		fmt.Printf("OK property=%s tier=%s paths=%d queries=%d wall=%.1fs\n", prop, tier, cs.totalPaths, cs.solver.Queries, time.Since(cs.start).Seconds())
	}
	return exit
}

func firstLines(s string, n int) string {
	lines := strings.Split(s, "\n")
	if len(lines) > n {
		lines = lines[:n]
	}
	return strings.Join(lines, "\n")
}

func addSolver(a *sym.SolverStats, b sym.SolverStats) {
	a.Queries += b.Queries
	a.Sat += b.Sat
	a.Unsat += b.Unsat
	a.Unknown += b.Unknown
	a.Fallbacks += b.Fallbacks
	a.Time += b.Time
	if b.MaxQuery > a.MaxQuery {
		a.MaxQuery = b.MaxQuery
	}
}

func applyOpts(cfg *sym.Config, h *sym.Harness) {
	for k, v := range h.Opts {
		n, _ := strconv.Atoi(v)
		switch k {
		case "maxpaths":
			cfg.MaxPaths = n
		case "maxloop":
			cfg.MaxLoop = n
		case "maxenum":
			cfg.MaxEnum = n
		case "maxviolations":
			cfg.MaxViolations = n
		case "solver":
			cfg.Solver = v
		case "poolchoice":
			cfg.PoolChoice = v == "yes"
		case "timeout":
			cfg.SolverTimeoutMs = n
		case "workers":
			if n < cfg.Workers {
				cfg.Workers = n
			}
		}
	}
}

func resolveSubsts(ld *sym.Loaded, h *sym.Harness) (map[*sym.SSAFunc]*sym.SSAFunc, []string, error) {
	m := map[*sym.SSAFunc]*sym.SSAFunc{}
	var names []string
	for _, s := range h.Substs {
		target := sym.ResolveFunc(ld.Prog, s[0])
		if target == nil {
			return nil, nil, fmt.Errorf("subst target not found: %s", s[0])
		}
		stub := ld.Pkg.Func(s[1])
		if stub == nil {
			stub = sym.ResolveFunc(ld.Prog, s[1])
		}
		if stub == nil {
			return nil, nil, fmt.Errorf("subst stub not found: %s", s[1])
		}
		m[target] = stub
		names = append(names, s[0]+" -> "+s[1])
	}
	return m, names, nil
}

func writeReplay(prop string, h *sym.Harness, pkgRel string, shape map[string]int, v *sym.Violation, seed int64, idx int) string {
	dir := filepath.Join(verifRoot, "replays")
	os.MkdirAll(dir, 0o755)
	name := fmt.Sprintf("%s-%s-%s-%d.json", prop, h.Name, strings.NewReplacer(",", "_", "=", "").Replace(shapeString(shape)), idx)
	path := filepath.Join(dir, name)
	rf := replayFile{Property: prop, Harness: h.Name, Package: pkgRel, Params: shape, Seed: seed, ND: v.ND,
		Failed: map[string]string{"kind": v.Kind, "label": v.Label, "msg": v.Msg}, RepoHead: repoHead(), Created: "gosym"}
	data, _ := json.MarshalIndent(rf, "", " ")
	os.WriteFile(path, data, 0o644)
	return path
}

// confirmViolation re-runs the counterexample concretely in the executor and, where the
// harness allows, natively against the compiled code.
func confirmViolation(ld *sym.Loaded, h *sym.Harness, fn *sym.SSAFunc, substs map[*sym.SSAFunc]*sym.SSAFunc, cfg *sym.Config, v *sym.Violation, path string) (bool, string) {
	ccfg := *cfg
	ccfg.Workers = 1
	ccfg.Replay = v.ND
	ccfg.Confirm = ""
	ccfg.Known = map[string]bool{}
	out := sym.Explore(ld.Prog, fn, substs, &ccfg)
	if len(out.Violations) == 0 {
		msg := "concrete re-execution in the executor did not reproduce"
		if len(out.Errors) > 0 {
			msg += ": " + firstLines(out.Errors[0], 5)
		}
		return false, msg
	}
	if out.Violations[0].Kind != v.Kind {
		return false, fmt.Sprintf("concrete re-execution gave %s/%s instead of %s/%s", out.Violations[0].Kind, out.Violations[0].Label, v.Kind, v.Label)
	}
	if !h.Native {
		return true, "interpreted-concrete"
	}
	verdict, text := nativeReplay(h, path)
	if strings.HasPrefix(verdict, "violated") {
		return true, "native (" + verdict + ")"
	}
	if verdict == "" {
		return false, "native replay produced no verdict:\n" + lastLines(text, 25)
	}
	return false, "native replay verdict: " + verdict
}

func lastLines(s string, n int) string {
	lines := strings.Split(strings.TrimSpace(s), "\n")
	if len(lines) > n {
		lines = lines[len(lines)-n:]
	}
	return strings.Join(lines, "\n")
}

// ---- run (debug) ----

func cmdRun(args []string) int {
	pos, flags := parseFlags(args)
	if len(pos) < 1 {
		usage()
	}
	all, err := sym.ScanHarnesses(harnessRoot)
	if err != nil {
		fmt.Fprintln(os.Stderr, err)
		return 2
	}
	var h *sym.Harness
	for _, x := range all {
		if x.Name == pos[0] {
			h = x
		}
	}
	if h == nil {
		fmt.Fprintln(os.Stderr, "no such harness")
		return 2
	}
	cfg := baseConfig(flags)
	for _, kv := range pos[1:] {
		p := strings.SplitN(kv, "=", 2)
		if len(p) == 2 {
			n, _ := strconv.Atoi(p[1])
			cfg.Params[p[0]] = n
		}
	}
	applyOpts(cfg, h)
	if flags["confirm"] != "" {
		cfg.Confirm = flags["confirm"]
	}
	if flags["known"] != "" {
		for _, id := range strings.Split(flags["known"], ",") {
			cfg.Known[id] = true
		}
	}
	t0 := time.Now()
	ld, err := sym.Load(harnessRoot, h.PkgRel)
	if err != nil {
		fmt.Fprintln(os.Stderr, err)
		return 2
	}
	defer ld.Cleanup()
	fmt.Printf("loaded in %.1fs\n", time.Since(t0).Seconds())
	fn := ld.Pkg.Func(h.Name)
	if fn == nil {
		fmt.Fprintln(os.Stderr, "harness function not found in package")
		return 2
	}
	substs, _, err := resolveSubsts(ld, h)
	if err != nil {
		fmt.Fprintln(os.Stderr, err)
		return 2
	}
	out := sym.Explore(ld.Prog, fn, substs, cfg)
	st := out.Stats
	fmt.Printf("paths=%d completed=%d infeasible=%d symbolic=%d asserts=%d steps=%d queries=%d (sat %d unsat %d unknown %d fallback %d) solver=%.2fs maxq=%.2fs wall=%.2fs funcs=%d\n",
		st.Paths, st.Completed, st.Infeasible, st.SymbolicPaths, st.Asserts, st.Steps, st.Solver.Queries, st.Solver.Sat, st.Solver.Unsat, st.Solver.Unknown, st.Solver.Fallbacks,
		st.Solver.Time.Seconds(), st.Solver.MaxQuery.Seconds(), st.Wall.Seconds(), len(st.Functions))
	for _, e := range out.Errors {
		fmt.Println("ERROR:", e)
	}
	for i, v := range out.Violations {
		fmt.Printf("violation %d: kind=%s label=%s msg=%s\n  nd=%v\n", i, v.Kind, v.Label, firstLines(v.Msg, 5), ndSummary(v.ND))
		for _, o := range v.Observed {
			fmt.Printf("  observed %s\n", o)
		}
		if flags["replay"] == "true" {
			path := writeReplay(h.Property, h, h.PkgRel, cfg.Params, v, cfg.Seed, i)
			ok, how := confirmViolation(ld, h, fn, substs, cfg, v, path)
			fmt.Printf("  replay %s: confirmed=%v %s\n", path, ok, how)
		}
	}
	if flags["observed"] == "true" {
		for _, o := range out.Observed {
			fmt.Println("observed:", o)
		}
	}
	if flags["funcs"] == "true" {
		for _, f := range st.Functions {
			fmt.Println("  fn", f)
		}
	}
	if len(out.Errors) > 0 {
		return 2
	}
	if len(out.Violations) > 0 {
		return 1
	}
	return 0
}

func ndSummary(nd []sym.NDRec) string {
	var parts []string
	for _, r := range nd {
		parts = append(parts, fmt.Sprintf("%s:%d", r.Kind, r.Value))
	}
	s := strings.Join(parts, " ")
	if len(s) > 600 {
		s = s[:600] + "..."
	}
	return s
}

// ---- replay ----

func cmdReplay(args []string) int {
	if len(args) < 1 {
		usage()
	}
	data, err := os.ReadFile(args[0])
	if err != nil {
		fmt.Fprintln(os.Stderr, err)
		return 2
	}
	var rf replayFile
	if err := json.Unmarshal(data, &rf); err != nil {
		fmt.Fprintln(os.Stderr, err)
		return 2
	}
	all, _ := sym.ScanHarnesses(harnessRoot)
	var h *sym.Harness
	for _, x := range all {
		if x.Name == rf.Harness {
			h = x
		}
	}
	if h == nil {
		fmt.Fprintln(os.Stderr, "harness not found: "+rf.Harness)
		return 2
	}
	abs, _ := filepath.Abs(args[0])
	if h.Native {
		verdict, text := nativeReplay(h, abs)
		fmt.Println("native replay verdict:", verdict)
		if verdict == "" {
			fmt.Println(lastLines(text, 40))
			return 2
		}
		if strings.HasPrefix(verdict, "violated") {
			fmt.Printf("VIOLATION property=%s replay=%s\n", rf.Property, abs)
			return 1
		}
		return 0
	}
	ld, err := sym.Load(harnessRoot, h.PkgRel)
	if err != nil {
		fmt.Fprintln(os.Stderr, err)
		return 2
	}
	defer ld.Cleanup()
	fn := ld.Pkg.Func(h.Name)
	substs, _, err := resolveSubsts(ld, h)
	if err != nil || fn == nil {
		fmt.Fprintln(os.Stderr, "cannot resolve harness", err)
		return 2
	}
	cfg := sym.DefaultConfig()
	cfg.Workers = 1
	cfg.Params = rf.Params
	cfg.Replay = rf.ND
	applyOpts(cfg, h)
	out := sym.Explore(ld.Prog, fn, substs, cfg)
	if len(out.Violations) > 0 {
		v := out.Violations[0]
		fmt.Printf("interpreted-concrete replay: kind=%s label=%s msg=%s\n", v.Kind, v.Label, firstLines(v.Msg, 5))
		fmt.Printf("VIOLATION property=%s replay=%s\n", rf.Property, abs)
		return 1
	}
	for _, e := range out.Errors {
		fmt.Println("ERROR:", e)
	}
	fmt.Println("replay: no violation")
	if len(out.Errors) > 0 {
		return 2
	}
	return 0
}

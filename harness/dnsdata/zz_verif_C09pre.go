package dnsdata

// C09 (preprocessing part) — preprocessing a data file (subnet lines replaced by derived
// range-point lines, SOA lines normalised with the serial filled in) yields a file that compiles
// to the same RocksDB as the original.

import (
	"bytes"

	"github.com/facebookincubator/dns/dnsrocks/zzverif/nd"
)

//verif:harness H09_preproc property=C09 native=no quick=lines=2;lines=3 thorough=lines=3

var verifPreLines = []string{
	"%ab,10.0.0.0/8,mm",
	"%cd,10.1.0.0/16,mm",
	"%ab,0.0.0.0/0,mm",
	"%ef,2001:db8::/32,mm",
	"%gh,::/0,mm",
	"%ij,10.0.0.0/8,nn",
	"Zz.ex,ns.z.ex,adm.z.ex",
	"Zy.ex,ns.y.ex,adm.y.ex,5,,,,,300",
	"Zx.ex,ns.x.ex,adm.x.ex,0",
	"+a.ex,192.0.2.1,300",
	"# a comment",
}

func verifRocksCodec(serial uint32, v2 bool) *Codec {
	c := VerifNewCodec(true)
	c.Serial = serial
	c.Features.UseV2Keys = v2
	return c
}

type verifKVs struct {
	k    []byte
	vals [][]byte
}

func verifCompileLines(c *Codec, lines [][]byte) []verifKVs {
	var out []verifKVs
	add := func(recs []MapRecord) {
		for _, r := range recs {
			found := false
			for i := range out {
				if bytes.Equal(out[i].k, r.Key) {
					out[i].vals = append(out[i].vals, r.Value)
					found = true
				}
			}
			if !found {
				out = append(out, verifKVs{r.Key, [][]byte{r.Value}})
			}
		}
	}
	for _, l := range lines {
		if isIgnored(l) {
			continue
		}
		recs, err := c.ConvertLn(l)
		nd.Assert(err == nil, "line-compiles")
		add(recs)
	}
	fin, err := VerifFinish(c)
	nd.Assert(err == nil, "finish")
	add(fin)
	return out
}

func verifSameKVs(a, b []verifKVs, tag string) {
	nd.Assert(len(a) == len(b), tag+":same-key-count")
	for _, x := range a {
		var y *verifKVs
		for i := range b {
			if bytes.Equal(b[i].k, x.k) {
				y = &b[i]
			}
		}
		nd.Assert(y != nil, tag+":key-present")
		nd.Assert(len(x.vals) == len(y.vals), tag+":same-value-count")
		used := make([]bool, len(y.vals))
		for _, v := range x.vals {
			ok := false
			for j, w := range y.vals {
				if !used[j] && bytes.Equal(v, w) {
					used[j], ok = true, true
					break
				}
			}
			nd.Assert(ok, tag+":same-multiset-of-values")
		}
	}
}

func H09_preproc() {
	n := nd.Param("lines")
	v2 := nd.Bool()
	var lines [][]byte
	var file []byte
	serialZero := false
	for i := 0; i < n; i++ {
		k := nd.Choice(len(verifPreLines))
		serialZero = serialZero || k == 8
		l := []byte(verifPreLines[k])
		if l[0] == '%' {
			// symbolic location id and map id (lower-case letters): whether neighbouring
			// ranges carry the same location decides which range points exist
			for _, pos := range []int{1, 2, len(l) - 2, len(l) - 1} {
				b := nd.Byte()
				nd.Assume(b >= 'a' && b <= 'd')
				l[pos] = b
			}
		}
		lines = append(lines, l)
		file = append(file, l...)
		file = append(file, '\n')
	}
	nd.Known("C09-soa-explicit-serial-zero", serialZero)

	// preprocess with the serial of the original file
	var pre bytes.Buffer
	nd.Assert(verifRocksCodec(7, v2).Preprocess(bytes.NewReader(file), &pre) == nil, "preprocess-ok")
	var preLines [][]byte
	for _, l := range bytes.Split(pre.Bytes(), []byte("\n")) {
		if len(l) > 0 {
			preLines = append(preLines, l)
		}
	}
	// the original compiled at its own serial; the preprocessed file compiled later (another default serial)
	orig := verifCompileLines(verifRocksCodec(7, v2), lines)
	again := verifCompileLines(verifRocksCodec(9, v2), preLines)
	verifSameKVs(orig, again, "original-vs-preprocessed")
	verifSameKVs(again, orig, "preprocessed-vs-original")
}

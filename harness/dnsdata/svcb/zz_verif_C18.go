package svcb

// C18 — SVCB/HTTPS parameters compile to conformant, faithful wire data.
//
// A parameter list is assembled from the seven supported keys (order, subset, duplicates and
// the contents of `mandatory` chosen by the solver through nd.Choice) with symbolic value
// parts. The real FromText / ToWire / ToText run; the wire data is decoded by miekg/dns
// (independent decoder, executed from source) and compared with what was declared.

import (
	"bytes"
	"net"

	"github.com/facebookincubator/dns/dnsrocks/zzverif/nd"
	"github.com/miekg/dns"
)

//verif:harness H18_wire property=C18 native=yes quick=k=1,vmax=2,empty=0,mand=0,long=0;k=2,vmax=1,empty=0,mand=0,long=0;k=2,vmax=1,empty=1,mand=0,long=0;k=3,vmax=1,empty=0,mand=1,long=0;k=1,vmax=1,empty=0,mand=0,long=1 thorough=k=2,vmax=2,empty=0,mand=0,long=0;k=2,vmax=1,empty=1,mand=0,long=0

var verifVmax = 2

// verifMandNames, when set, fixes the keys that the next `mandatory` parameter names.
var verifMandNames []int

var verifKeyNames = []string{"mandatory", "alpn", "no-default-alpn", "port", "ipv4hint", "echconfig", "ipv6hint"}

const verifB64 = "ABCDEFGHIJKLMNOPQRSTUVWXYZabcdefghijklmnopqrstuvwxyz0123456789+/"

func verifBase64(b []byte) []byte {
	var out []byte
	for i := 0; i < len(b); i += 3 {
		var v uint32
		n := len(b) - i
		if n > 3 {
			n = 3
		}
		for j := 0; j < 3; j++ {
			v <<= 8
			if j < n {
				v |= uint32(b[i+j])
			}
		}
		out = append(out, verifB64[(v>>18)&63], verifB64[(v>>12)&63])
		if n > 1 {
			out = append(out, verifB64[(v>>6)&63])
		} else {
			out = append(out, '=')
		}
		if n > 2 {
			out = append(out, verifB64[v&63])
		} else {
			out = append(out, '=')
		}
	}
	return out
}

type verifDecl struct {
	key       int
	mand      []int    // mandatory: named keys, in declaration order
	alpn      [][]byte // alpn ids
	port      uint64   // numeric value of the port text (may exceed 65535); built like strconv.ParseUint builds it, so that the two terms coincide
	v4        [][4]byte
	ech       []byte
	v6        []net.IP
	quoted    bool
}

func verifPlainByte() byte {
	b := nd.Byte()
	nd.Assume(nd.And(b != ';', nd.And(b != '|', b != '"')))
	return b
}

// verifFixedValues: parameter values are fixed instead of solver-chosen (the shape that studies
// the `mandatory` value itself).
var verifFixedValues bool

func verifFixedParamText(d *verifDecl) []byte {
	t := append([]byte(verifKeyNames[d.key]), '=')
	switch d.key {
	case 0:
		for i, k := range verifMandNames {
			d.mand = append(d.mand, k)
			if i > 0 {
				t = append(t, '|')
			}
			t = append(t, verifKeyNames[k]...)
		}
	case 1:
		d.alpn = [][]byte{[]byte("h2")}
		t = append(t, "h2"...)
	case 3:
		d.port = 443
		t = append(t, "443"...)
	case 4:
		d.v4 = [][4]byte{{1, 2, 3, 4}}
		t = append(t, "1.2.3.4"...)
	case 5:
		d.ech = []byte{1, 2, 3}
		t = append(t, verifBase64(d.ech)...)
	case 6:
		d.v6 = []net.IP{net.ParseIP("2001:db8::1")}
		t = append(t, "2001:db8::1"...)
	}
	return t
}

// verifParamText renders one declaration as tinydns text and records the declared values.
func verifParamText(d *verifDecl) []byte {
	if verifFixedValues {
		return verifFixedParamText(d)
	}
	var t []byte
	t = append(t, verifKeyNames[d.key]...)
	t = append(t, '=')
	d.quoted = nd.Bool()
	if d.quoted {
		t = append(t, '"')
	}
	switch d.key {
	case 0: // mandatory=<name>|<name>
		n := 1 + nd.Choice(verifVmax)
		if verifMandNames != nil {
			n = len(verifMandNames)
		}
		for i := 0; i < n; i++ {
			k := 0
			if verifMandNames != nil {
				k = verifMandNames[i]
			} else {
				k = nd.Choice(7)
			}
			d.mand = append(d.mand, k)
			if i > 0 {
				t = append(t, '|')
			}
			t = append(t, verifKeyNames[k]...)
		}
	case 1: // alpn=<id>|<id>
		n := 1 + nd.Choice(verifVmax)
		for i := 0; i < n; i++ {
			id := make([]byte, 1+nd.Choice(verifVmax))
			for j := range id {
				id[j] = verifPlainByte()
			}
			d.alpn = append(d.alpn, id)
			if i > 0 {
				t = append(t, '|')
			}
			t = append(t, id...)
		}
	case 2: // no-default-alpn=
	case 3: // port=<digits>
		nd_ := 1 + 4*nd.Choice(2) // one digit or five (boundary 65535 is among the five-digit texts)
		for i := 0; i < nd_; i++ {
			c := nd.Byte()
			nd.Assume(nd.And(c >= '0', c <= '9'))
			d.port = d.port*10 + uint64(c-'0')
			t = append(t, c)
		}
	case 4: // ipv4hint=a.b.c.d|...  (single-digit octets)
		n := 1 + nd.Choice(verifVmax)
		for i := 0; i < n; i++ {
			var a [4]byte
			if i > 0 {
				t = append(t, '|')
			}
			for j := 0; j < 4; j++ {
				c := nd.Byte()
				nd.Assume(nd.And(c >= '0', c <= '9'))
				a[j] = c - '0'
				if j > 0 {
					t = append(t, '.')
				}
				t = append(t, c)
			}
			d.v4 = append(d.v4, a)
		}
	case 5: // echconfig=<base64>
		d.ech = nd.Bytes(1 + nd.Choice(verifVmax+1))
		t = append(t, verifBase64(d.ech)...)
	case 6: // ipv6hint from a pool (textual IPv6 parsing/printing is not the subject)
		pool := []string{"face:b00c::", "2001:db8::1", "fe80::1:2"}
		n := 1 + nd.Choice(verifVmax)
		for i := 0; i < n; i++ {
			s := pool[nd.Choice(len(pool))]
			d.v6 = append(d.v6, net.ParseIP(s))
			if i > 0 {
				t = append(t, '|')
			}
			t = append(t, s...)
		}
	}
	if d.quoted {
		t = append(t, '"')
	}
	return t
}

// verifStrict selects how the judge reports: assertions, or (when two readings of a malformed
// list are admissible) a verdict in verifOK.
var verifStrict, verifOK = true, true

func ck(cond bool, label string) {
	if verifStrict {
		nd.Assert(cond, label)
	} else if !cond {
		verifOK = false
	}
}

// H18_wire: see file comment.
func H18_wire() {
	k := nd.Param("k")
	verifVmax = nd.Param("vmax")
	// malformed variant: an empty item (a doubled, leading or trailing ';') before item p
	empty := -1
	if nd.Param("empty") == 1 {
		empty = nd.Choice(k + 1)
	}
	decls := make([]*verifDecl, k)
	var text []byte
	verifMandNames, verifFixedValues = nil, false
	if nd.Param("mand") == 1 {
		verifFixedValues = true
		// a satisfiable `mandatory` with two names: the list is mandatory plus the two keys it
		// names, in an order chosen by the solver (k must be 3)
		a := 1 + nd.Choice(6)
		b := 1 + nd.Choice(6)
		nd.Assume(a != b)
		verifMandNames = []int{a, b}
		order := [][]int{{0, a, b}, {a, 0, b}, {b, a, 0}}[nd.Choice(3)]
		for i := range decls {
			decls[i] = &verifDecl{key: order[i]}
		}
	}
	if nd.Param("long") == 1 {
		// a value of 256 bytes or more (length prefix needs its high byte): an ECH configuration of
		// 258 bytes, the last one solver-chosen (k must be 1)
		d := &verifDecl{key: 5, ech: make([]byte, 258)}
		for i := range d.ech {
			d.ech[i] = byte(i)
		}
		d.ech[257] = nd.Byte()
		decls[0] = d
		text = append(append(text, "echconfig="...), verifBase64(d.ech)...)
		var l ParamList
		err := l.FromText(text)
		verifJudge18(decls, l, err)
		return
	}
	for i := range decls {
		if decls[i] == nil {
			decls[i] = &verifDecl{key: nd.Choice(7)}
		}
		if i > 0 {
			text = append(text, ';')
		}
		if i == empty {
			text = append(text, ';')
		}
		text = append(text, verifParamText(decls[i])...)
	}
	if empty == k {
		text = append(text, ';')
	}
	var l ParamList
	err := l.FromText(text)
	if empty < 0 || empty == k {
		// well-formed, or a trailing separator only
		verifJudge18(decls, l, err)
		return
	}
	// An empty item in the middle: the statement does not say whether the list ends there or the
	// empty item is skipped; the outcome must be right for one of the two readings as a whole.
	verifStrict, verifOK = false, true
	verifJudge18(decls[:empty], l, err)
	if verifOK {
		return
	}
	verifStrict = true
	verifJudge18(decls, l, err)
}

func verifJudge18(decls []*verifDecl, l ParamList, err error) {
	// what the statement says must be rejected
	present := map[int]bool{}
	dup := false
	for _, d := range decls {
		if present[d.key] {
			dup = true
		}
		present[d.key] = true
	}
	mandBad := false
	for _, d := range decls {
		if d.key == 0 {
			seen := map[int]bool{}
			for _, m := range d.mand {
				if m == 0 || seen[m] || !present[m] {
					mandBad = true
				}
				seen[m] = true
			}
		}
	}
	// value errors that are not about the list structure
	valueBad := false
	for _, d := range decls {
		if d.key == 3 && d.port > 65535 {
			valueBad = true
		}
		if d.key == 2 && d.quoted {
			// no-default-alpn="" is accepted (quotes are trimmed); nothing to do
		}
	}

	if err != nil {
		ck(dup || mandBad || valueBad, "rejected-only-for-a-stated-reason")
		return
	}
	ck(!dup, "repeated-key-rejected")
	ck(!mandBad, "bad-mandatory-rejected")
	ck(!valueBad, "out-of-range-port-rejected")

	var wire bytes.Buffer
	ck(l.ToWire(&wire) == nil, "towire-ok")
	w := wire.Bytes()

	// keys strictly increasing, lengths consistent (own parse of the wire form)
	last := -1
	for off := 0; off < len(w); {
		ck(off+4 <= len(w), "wire-header-complete")
		key := int(w[off])<<8 | int(w[off+1])
		ln := int(w[off+2])<<8 | int(w[off+3])
		ck(key > last, "keys-strictly-increasing")
		last = key
		off += 4 + ln
		ck(off <= len(w), "wire-value-complete")
	}

	// independent decoder: miekg/dns
	rdata := append([]byte{0, 1, 0}, w...) // priority 1, target "."
	hdr := dns.RR_Header{Name: ".", Rrtype: dns.TypeSVCB, Class: dns.ClassINET, Rdlength: uint16(len(rdata))}
	rr, _, uerr := dns.UnpackRRWithHeader(hdr, rdata, 0)
	ck(uerr == nil, "independent-decoder-accepts")
	vals := rr.(*dns.SVCB).Value
	ck(len(vals) == len(decls), "one-wire-param-per-declared-key")
	for _, d := range decls {
		var kv dns.SVCBKeyValue
		for _, v := range vals {
			if int(v.Key()) == d.key {
				kv = v
			}
		}
		ck(kv != nil, "declared-key-present-on-the-wire")
		switch d.key {
		case 0:
			m := kv.(*dns.SVCBMandatory)
			ck(len(m.Code) == len(d.mand), "mandatory-count")
			for i := 1; i < len(m.Code); i++ {
				// RFC 9460 section 8: the value lists the keys in strictly increasing numeric order
				ck(m.Code[i-1] < m.Code[i], "mandatory-value-keys-strictly-increasing")
			}
			for _, want := range d.mand {
				found := false
				for _, c := range m.Code {
					found = found || int(c) == want
				}
				ck(found, "mandatory-names-faithful")
			}
		case 1:
			a := kv.(*dns.SVCBAlpn)
			ck(len(a.Alpn) == len(d.alpn), "alpn-count")
			for i := range d.alpn {
				ck(a.Alpn[i] == string(d.alpn[i]), "alpn-ids-faithful")
			}
		case 2:
			_, ok := kv.(*dns.SVCBNoDefaultAlpn)
			ck(ok, "no-default-alpn-empty")
		case 3:
			ck(uint64(kv.(*dns.SVCBPort).Port) == d.port, "port-faithful")
		case 4:
			h := kv.(*dns.SVCBIPv4Hint)
			ck(len(h.Hint) == len(d.v4), "ipv4hint-count")
			for i := range d.v4 {
				ck(h.Hint[i].Equal(net.IP(d.v4[i][:])), "ipv4hint-faithful")
			}
		case 5:
			ck(bytes.Equal(kv.(*dns.SVCBECHConfig).ECH, d.ech), "ech-faithful")
		case 6:
			h := kv.(*dns.SVCBIPv6Hint)
			ck(len(h.Hint) == len(d.v6), "ipv6hint-count")
			for i := range d.v6 {
				ck(h.Hint[i].Equal(d.v6[i]), "ipv6hint-faithful")
			}
		}
	}

	// text fix-point: print, parse again, same wire data
	var txt bytes.Buffer
	l.ToText(&txt)
	var l2 ParamList
	ck(l2.FromText(txt.Bytes()) == nil, "printed-text-parses")
	var wire2 bytes.Buffer
	ck(l2.ToWire(&wire2) == nil, "towire2-ok")
	ck(bytes.Equal(wire2.Bytes(), w), "print-parse-same-wire")
}

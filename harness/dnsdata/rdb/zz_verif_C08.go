package rdb

// C08 — applying a diff gives the database of the new data file.
//
// Data-file lines come from templates with symbolic parts (two TXT lines of one owner with two
// symbolic text bytes each — value equality and prefix relations are the solver's choice — a
// range point without location (empty value), an address line with a symbolic digit, a located
// range-point line). A and B are sub-multisets chosen by
// symbolic booleans; the diff "-line" for A\B and "+line" for B\A is applied by the real
// RDB.ApplyDiff (scanner, dbdiff.Entry, Batch.ApplyDiff, ExecuteBatch) to Store(A); the result
// must equal Store(B) as a map from key to multiset of values, for v1 and v2 keys.

import (
	"bytes"
	"errors"
	"io"

	"github.com/facebookincubator/dns/dnsrocks/dnsdata"
	"github.com/facebookincubator/dns/dnsrocks/zzverif/nd"
)

//verif:include zz_verif_model.go
//verif:harness H08_step property=C08 native=no quick=t=3,v2=1,bad=0;t=3,v2=0,bad=1;t=4,v2=0,bad=0;t=3,v2=1,bad=3;t=3,v2=0,bad=4 thorough=t=4,v2=1,bad=2;t=5,v2=1,bad=0;t=5,v2=0,bad=1;t=6,v2=1,bad=0

func verifPlainText(n int) []byte {
	b := nd.Bytes(n)
	for _, c := range b {
		// free of escapes, separators and line breaks (quoting is C17's subject)
		nd.Assume(nd.And(nd.And(c != '\\', c != ','), nd.And(nd.And(c != ':', c != '\n'), c != '\r')))
	}
	return b
}

// verifTemplates returns the pool of data-file lines.
func verifTemplates(t int) [][]byte {
	digit := nd.Byte()
	nd.Assume(nd.And(digit >= '0', digit <= '9'))
	lines := [][]byte{
		append([]byte("'k.ex,"), verifPlainText(2)...),
		append([]byte("'k.ex,"), verifPlainText(2)...),
		[]byte("!\\000m,11.0.0.0"), // a range point without location: its stored value is empty
		append([]byte("+a.ex,192.0.2."), digit),
		[]byte("!\\000m,10.0.0.0,8,ab"),
		[]byte("+a.ex,192.0.2.7"),
	}
	return lines[:t]
}

// verifStoreOf compiles lines with the RocksDB codec settings into a fresh store.
func verifStoreOf(lines [][]byte, v2 bool) *VerifDB {
	codec := initCodec(1)
	codec.Features.UseV2Keys = v2
	type grp struct {
		k    []byte
		vals [][]byte
	}
	var groups []grp
	add := func(recs []dnsdata.MapRecord) {
		for _, r := range recs {
			found := false
			for i := range groups {
				if bytes.Equal(groups[i].k, r.Key) {
					groups[i].vals = append(groups[i].vals, r.Value)
					found = true
					break
				}
			}
			if !found {
				groups = append(groups, grp{r.Key, [][]byte{r.Value}})
			}
		}
	}
	for _, l := range lines {
		recs, err := codec.ConvertLn(l)
		nd.Assert(err == nil, "template-line-compiles")
		add(recs)
	}
	f, err := codec.Features.MarshalMap()
	nd.Assert(err == nil, "features")
	add(f)
	db := NewVerifDB()
	for _, g := range groups {
		db.Cur = db.Cur.with(g.k, VerifEncodeValues(g.vals))
	}
	return db
}

// verifSameMap: two stores hold the same key -> multiset of values.
func verifSameMap(a, b *VerifSnap, tag string) {
	nd.Assert(len(a.Keys) == len(b.Keys), tag+":same-key-count")
	for i := range a.Keys {
		j, found := b.locate(a.Keys[i])
		nd.Assert(found, tag+":key-present")
		av, ok1 := VerifDecodeValues(a.Vals[i])
		bv, ok2 := VerifDecodeValues(b.Vals[j])
		nd.Assert(ok1 && ok2, tag+":values-well-formed")
		nd.Assert(verifSameMultiset(av, bv), tag+":same-multiset-of-values")
	}
}

// verifFailingReader delivers its data and then fails instead of reporting the end of input.
type verifFailingReader struct {
	data []byte
	pos  int
}

var errVerifRead = errors.New("verif: read error")

func (f *verifFailingReader) Read(p []byte) (int, error) {
	if f.pos >= len(f.data) {
		return 0, errVerifRead
	}
	n := copy(p, f.data[f.pos:])
	f.pos += n
	return n, nil
}

func H08_step() {
	t, v2 := nd.Param("t"), nd.Param("v2") == 1
	tmpl := verifTemplates(t)
	var fileA, fileB, minus, plus [][]byte
	for _, l := range tmpl {
		inA, inB := nd.Bool(), nd.Bool()
		if inA {
			fileA = append(fileA, l)
		}
		if inB {
			fileB = append(fileB, l)
		}
		if inA && !inB {
			minus = append(minus, l)
		}
		if inB && !inA {
			plus = append(plus, l)
		}
	}
	storeA := verifStoreOf(fileA, v2)
	want := verifStoreOf(fileB, v2)

	// diff lines in an order chosen by the solver
	var diff []byte
	bad := nd.Param("bad")
	pending := make([][]byte, 0, len(minus)+len(plus)+1)
	for _, l := range minus {
		pending = append(pending, append([]byte("-"), l...))
	}
	for _, l := range plus {
		pending = append(pending, append([]byte("+"), l...))
	}
	switch bad {
	case 1: // deletes a line that is not in A
		pending = append(pending, []byte("-'zz.ex,never-there"))
	case 2: // a malformed line (unknown operation)
		pending = append(pending, []byte("?'k.ex,x"))
	case 4: // a malformed line of a single character (an operation without a record)
		pending = append(pending, []byte{"-+x"[nd.Choice(3)]})
	}
	for len(pending) > 0 {
		k := nd.Choice(len(pending))
		diff = append(diff, pending[k]...)
		diff = append(diff, '\n')
		pending = append(pending[:k:k], pending[k+1:]...)
	}

	r := VerifNewRDB(storeA, false)
	pre := storeA.Cur
	var src io.Reader = bytes.NewReader(diff)
	if bad == 3 {
		// the diff cannot be read to its end (I/O error after the lines read so far)
		src = &verifFailingReader{data: diff}
	}
	err := r.ApplyDiff(src, 1)
	if bad != 0 {
		nd.Assert(err != nil, "inapplicable-diff-fails")
		nd.Assert(verifSameSnap(pre, storeA.Cur), "failed-diff-leaves-database-unchanged")
		return
	}
	nd.Assert(err == nil, "diff-applies")
	verifSameMap(storeA.Cur, want.Cur, "after-diff-vs-compiled-B")
	verifSameMap(want.Cur, storeA.Cur, "compiled-B-vs-after-diff")
}

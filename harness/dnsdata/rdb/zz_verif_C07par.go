package rdb

// C07 (batch parallelism part) — the compiled database does not depend on how the batch
// writers are scheduled: batches executed concurrently, with keys in common, leave every value
// of every batch in the store.
//
// G goroutines run the real RDB.ExecuteBatch on batches whose keys are solver-chosen bytes (so
// whether two batches share a key is the solver's choice) over the model store, whose every
// operation is a pre-emption point; the scheduler explores the interleavings within the budget.

import (
	"github.com/facebookincubator/dns/dnsrocks/zzverif/nd"
)

//verif:include zz_verif_model.go
//verif:harness H07_parbatch property=C07 native=no quick=g=2,adds=1,pre=1;g=2,adds=2,pre=1 thorough=g=3,adds=1,pre=1;g=2,adds=2,pre=2

func H07_parbatch() {
	g, adds := nd.Param("g"), nd.Param("adds")
	db := NewVerifDB()
	r := VerifNewRDB(db, false)
	type kv struct{ k, v []byte }
	all := make([][]kv, g)
	batches := make([]*Batch, g)
	for i := 0; i < g; i++ {
		batches[i] = r.CreateBatch()
		for j := 0; j < adds; j++ {
			k := nd.Byte()
			nd.Assume(k < 3) // three possible keys: sharing is likely but not forced
			e := kv{[]byte{'k', k}, []byte{byte('a' + i), byte('0' + j), nd.Byte()}}
			all[i] = append(all[i], e)
			batches[i].Add(e.k, e.v)
		}
	}
	nd.SchedExplore(nd.Param("pre"))
	done := make(chan error, g)
	for i := 0; i < g; i++ {
		i := i
		go func() { done <- r.ExecuteBatch(batches[i]) }()
	}
	for i := 0; i < g; i++ {
		nd.Assert(<-done == nil, "batch-executes")
	}
	// every value of every batch is stored under its key, exactly once
	for i := range all {
		for _, e := range all[i] {
			j, found := db.Cur.locate(e.k)
			nd.Assert(found, "key-present")
			vals, ok := VerifDecodeValues(db.Cur.Vals[j])
			nd.Assert(ok, "values-well-formed")
			n := 0
			for _, v := range vals {
				if len(v) == 3 && v[0] == e.v[0] && v[1] == e.v[1] && v[2] == e.v[2] {
					n++
				}
			}
			nd.Assert(n == 1, "value-of-a-concurrent-batch-kept-exactly-once")
		}
	}
}

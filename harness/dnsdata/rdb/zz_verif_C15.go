package rdb

// C15 — the RocksDB multi-value store behaves like a map of lists.
//
// One step from an arbitrary valid pre-state: two distinct symbolic 1-byte keys, each with a
// list of values (lengths chosen by the solver from 0..maxv, bytes symbolic; equal values and
// prefixes are in the space). One operation (Add / Del / batch) with symbolic arguments, then
// the store is read back through the real Find/ForEach and raw, and compared with the model.

import (
	"bytes"
	"errors"
	"io"

	"github.com/facebookincubator/dns/dnsrocks/zzverif/nd"
)

//verif:include zz_verif_model.go
//verif:harness H15_add property=C15 native=no quick=l0=1,l1=0,maxv=1;l0=2,l1=1,maxv=1 thorough=l0=2,l1=2,maxv=2;l0=3,l1=1,maxv=1
//verif:harness H15_del property=C15 native=no quick=l0=1,l1=0,maxv=1;l0=2,l1=1,maxv=1;l0=3,l1=0,maxv=1 thorough=l0=3,l1=1,maxv=2;l0=4,l1=0,maxv=1
//verif:harness H15_batch property=C15 native=no quick=l0=1,l1=1,maxv=1,a=1,d=1;l0=1,l1=0,maxv=1,a=2,d=1;l0=2,l1=0,maxv=0,a=1,d=2;l0=1,l1=1,maxv=0,a=0,d=3;l0=1,l1=1,maxv=0,a=3,d=0 thorough=l0=2,l1=0,maxv=1,a=2,d=1;l0=1,l1=1,maxv=1,a=1,d=2;l0=2,l1=1,maxv=0,a=0,d=3

type verifList struct {
	key  []byte
	vals [][]byte
}

func verifValue(maxv int) []byte { return nd.Bytes(nd.Choice(maxv + 1)) }

// verifPreState builds the model (two distinct keys) and the store holding it.
func verifPreState(l0, l1, maxv int) ([]verifList, *VerifDB) {
	k0, k1 := nd.Bytes(1), nd.Bytes(1)
	nd.Assume(k0[0] != k1[0])
	model := []verifList{{key: k0}, {key: k1}}
	for i := 0; i < l0; i++ {
		model[0].vals = append(model[0].vals, verifValue(maxv))
	}
	for i := 0; i < l1; i++ {
		model[1].vals = append(model[1].vals, verifValue(maxv))
	}
	db := NewVerifDB()
	for _, m := range model {
		if len(m.vals) > 0 {
			db.Cur = db.Cur.with(m.key, VerifEncodeValues(m.vals))
		}
	}
	return model, db
}

func verifSameSnap(a, b *VerifSnap) bool {
	if len(a.Keys) != len(b.Keys) {
		return false
	}
	ok := true
	for i := range a.Keys {
		ok = ok && bytes.Equal(a.Keys[i], b.Keys[i]) && bytes.Equal(a.Vals[i], b.Vals[i])
	}
	return ok
}

func verifListsEqual(a, b [][]byte) bool {
	if len(a) != len(b) {
		return false
	}
	ok := true
	for i := range a {
		ok = ok && bytes.Equal(a[i], b[i])
	}
	return ok
}

// verifSameMultiset: a is a permutation of b (small lists; forks on value equalities).
func verifSameMultiset(a, b [][]byte) bool {
	if len(a) != len(b) {
		return false
	}
	used := make([]bool, len(b))
	for _, x := range a {
		found := false
		for j, y := range b {
			if !used[j] && bytes.Equal(x, y) {
				used[j] = true
				found = true
				break
			}
		}
		if !found {
			return false
		}
	}
	return true
}

// verifReadBack checks that the store, read through the real API and raw, holds exactly want for key.
func verifReadBack(r *RDB, db *VerifDB, key []byte, want [][]byte, ordered bool, tag string) {
	raw, present := db.Cur.Get(key)
	if len(want) == 0 {
		nd.Assert(!present, tag+":key-removed-with-last-value")
	} else {
		nd.Assert(present, tag+":key-present")
	}
	dec, wellFormed := VerifDecodeValues(raw)
	nd.Assert(wellFormed, tag+":stored-value-well-formed")
	var got [][]byte
	err := r.ForEach(key, func(v []byte) error { got = append(got, verifCopy(v)); return nil }, NewContext())
	nd.Assert(err == nil, tag+":foreach-ok")
	nd.Assert(verifListsEqual(got, dec), tag+":foreach-yields-stored-values")
	if ordered {
		nd.Assert(verifListsEqual(got, want), tag+":values-equal-model")
	} else {
		nd.Assert(verifSameMultiset(got, want), tag+":values-equal-model-as-multiset")
	}
	first, ferr := r.Find(key, NewContext())
	if len(want) == 0 {
		nd.Assert(errors.Is(ferr, io.EOF), tag+":find-absent-eof")
	} else {
		nd.Assert(ferr == nil && bytes.Equal(first, got[0]), tag+":find-first")
	}
}

func verifModelIndex(model []verifList, key []byte) int {
	for i := range model {
		if bytes.Equal(model[i].key, key) {
			return i
		}
	}
	return -1
}

// H15_add: Add appends exactly one value to the key's list and touches nothing else.
func H15_add() {
	model, db := verifPreState(nd.Param("l0"), nd.Param("l1"), nd.Param("maxv"))
	r := VerifNewRDB(db, false)
	key, val := nd.Bytes(1), verifValue(nd.Param("maxv"))
	nd.Assert(r.Add(key, val) == nil, "add-ok")
	i := verifModelIndex(model, key)
	if i < 0 {
		model = append(model, verifList{key: key})
		i = len(model) - 1
	}
	model[i].vals = append(model[i].vals, val)
	for _, m := range model {
		verifReadBack(r, db, m.key, m.vals, true, "add")
	}
	nd.Assert(len(db.Cur.Keys) <= len(model), "add:no-extra-keys")
}

//verif:harness H15_big property=C15 native=no quick=n=65536 thorough=n=70000

// H15_big: values of any length: a value whose length needs more than 16 bits (n bytes, the last
// one solver-chosen) is stored next to a short one and both are read back.
func H15_big() {
	n := nd.Param("n")
	db := NewVerifDB()
	r := VerifNewRDB(db, false)
	key := []byte("k")
	big := make([]byte, n)
	for i := range big {
		big[i] = byte(i * 7)
	}
	big[n-1] = nd.Byte()
	small := []byte{nd.Byte()}
	nd.Assert(r.Add(key, big) == nil, "add-big")
	nd.Assert(r.Add(key, small) == nil, "add-small")
	var got [][]byte
	err := r.ForEach(key, func(v []byte) error { got = append(got, verifCopy(v)); return nil }, NewContext())
	nd.Assert(err == nil, "big:foreach-ok")
	nd.Assert(len(got) == 2, "big:two-values")
	nd.Assert(len(got[0]) == n && got[0][n-1] == big[n-1] && got[0][0] == big[0] && got[0][n/2] == big[n/2], "big:long-value-read-back")
	nd.Assert(len(got[1]) == 1 && got[1][0] == small[0], "big:short-value-read-back")
	first, ferr := r.Find(key, NewContext())
	nd.Assert(ferr == nil && len(first) == n, "big:find-first")
	nd.Assert(r.Del(key, big) == nil, "big:del-long-value")
	got = nil
	err = r.ForEach(key, func(v []byte) error { got = append(got, verifCopy(v)); return nil }, NewContext())
	nd.Assert(err == nil && len(got) == 1 && got[0][0] == small[0], "big:short-value-left")
}

// H15_del: Del removes exactly one equal value, or fails without effect.
func H15_del() {
	model, db := verifPreState(nd.Param("l0"), nd.Param("l1"), nd.Param("maxv"))
	r := VerifNewRDB(db, false)
	pre := db.Cur
	key, val := nd.Bytes(1), verifValue(nd.Param("maxv"))
	err := r.Del(key, val)
	i := verifModelIndex(model, key)
	pos := -1
	if i >= 0 {
		for j, v := range model[i].vals {
			if bytes.Equal(v, val) {
				pos = j
				break
			}
		}
	}
	switch {
	case i < 0 || len(model[i].vals) == 0:
		nd.Assert(errors.Is(err, ErrNXKey), "del:absent-key-error")
		nd.Assert(verifSameSnap(pre, db.Cur), "del:absent-key-no-effect")
	case pos < 0:
		nd.Assert(errors.Is(err, ErrNXVal), "del:absent-value-error")
		nd.Assert(verifSameSnap(pre, db.Cur), "del:absent-value-no-effect")
	default:
		nd.Assert(err == nil, "del-ok")
		// the stored list is the model list without ONE occurrence of val
		raw, _ := db.Cur.Get(key)
		got, wf := VerifDecodeValues(raw)
		nd.Assert(wf, "del:well-formed")
		nd.Assert(len(got) == len(model[i].vals)-1, "del:exactly-one-removed")
		okSome := false
		for j, v := range model[i].vals {
			if bytes.Equal(v, val) {
				rest := append(append([][]byte{}, model[i].vals[:j]...), model[i].vals[j+1:]...)
				okSome = okSome || verifListsEqual(got, rest)
			}
		}
		nd.Assert(okSome, "del:one-equal-value-removed-others-intact")
		model[i].vals = got
		for _, m := range model {
			verifReadBack(r, db, m.key, m.vals, true, "del")
		}
	}
}

// H15_batch: a batch = all its additions, then all its deletions, atomically; a failing batch changes nothing.
func H15_batch() {
	maxv := nd.Param("maxv")
	model, db := verifPreState(nd.Param("l0"), nd.Param("l1"), maxv)
	r := VerifNewRDB(db, false)
	pre := db.Cur
	a, d := nd.Param("a"), nd.Param("d")
	type op struct {
		del  bool
		k, v []byte
	}
	ops := make([]op, 0, a+d)
	// arbitrary interleaving of adds and deletes in the batch
	na, ndel := 0, 0
	for na < a || ndel < d {
		isDel := ndel < d && (na >= a || nd.Bool())
		o := op{del: isDel, k: nd.Bytes(1), v: verifValue(maxv)}
		if isDel {
			ndel++
		} else {
			na++
		}
		ops = append(ops, o)
	}
	b := r.CreateBatch()
	for _, o := range ops {
		if o.del {
			b.Del(o.k, o.v)
		} else {
			b.Add(o.k, o.v)
		}
	}
	writesBefore := db.Writes
	err := r.ExecuteBatch(b)

	// model: all adds, then all deletes
	exp := make([]verifList, len(model))
	for i := range model {
		exp[i] = verifList{key: model[i].key, vals: append([][]byte{}, model[i].vals...)}
	}
	for _, o := range ops {
		if !o.del {
			i := verifModelIndex(exp, o.k)
			if i < 0 {
				exp = append(exp, verifList{key: o.k})
				i = len(exp) - 1
			}
			exp[i].vals = append(exp[i].vals, o.v)
		}
	}
	fail := false
	for _, o := range ops {
		if o.del {
			i := verifModelIndex(exp, o.k)
			pos := -1
			if i >= 0 {
				for j, v := range exp[i].vals {
					if bytes.Equal(v, o.v) {
						pos = j
						break
					}
				}
			}
			if pos < 0 {
				fail = true
				break
			}
			exp[i].vals = append(append([][]byte{}, exp[i].vals[:pos]...), exp[i].vals[pos+1:]...)
		}
	}
	if fail {
		nd.Assert(err != nil, "batch:undeletable-value-fails")
		nd.Assert(verifSameSnap(pre, db.Cur), "batch:failed-batch-no-effect")
		return
	}
	nd.Assert(err == nil, "batch-ok")
	nd.Assert(db.Writes == writesBefore+1, "batch:single-atomic-write")
	for _, m := range exp {
		verifReadBack(r, db, m.key, m.vals, false, "batch")
	}
	nd.Assert(len(db.Cur.Keys) <= len(exp), "batch:no-extra-keys")
}

package rdb

// C07 — compilation is a deterministic, lossless function of the data file.

import (
	"bytes"
	"errors"

	rocksdb "github.com/facebookincubator/dns/dnsrocks/cgo-rocksdb"
	"github.com/facebookincubator/dns/dnsrocks/dnsdata"
	"github.com/facebookincubator/dns/dnsrocks/zzverif/nd"
)

//verif:include zz_verif_model.go
//verif:harness H07_buckets property=C07 native=no quick=n=3;n=4;n=5 thorough=n=6;n=7
//verif:harness H07_builder property=C07 native=no quick=n=3;n=4 thorough=n=5
//verif:harness H07_compile property=C07 native=no quick=lines=3,builder=1,workers=2,sched=0;lines=3,builder=0,workers=2,sched=0 thorough=lines=4,builder=1,workers=3,sched=0;lines=4,builder=0,workers=2,sched=0
//verif:subst H07_compile github.com/facebookincubator/dns/dnsrocks/dnsdata/rdb.NewBuilder github.com/facebookincubator/dns/dnsrocks/dnsdata/rdb.verifNewBuilder
//verif:subst H07_compile github.com/facebookincubator/dns/dnsrocks/dnsdata/rdb.NewRDB github.com/facebookincubator/dns/dnsrocks/dnsdata/rdb.verifNewRDBStub

// H07_buckets: createBuckets on n sorted entries with a symbolic key-equality pattern and
// symbolic minBucketSize / maxBucketNum: buckets are contiguous, non-empty, cover [0,n) and
// never separate equal keys. (The production constant 30000 only scales this function.)
func H07_buckets() {
	n := nd.Param("n")
	b := &Builder{}
	prev := byte(0)
	for i := 0; i < n; i++ {
		k := nd.Byte()
		nd.Assume(k >= prev) // sorted, equal neighbours allowed
		prev = k
		b.values = append(b.values, keyValues{key: []byte{k}, values: [][]byte{{byte(i)}}})
	}
	minSize, maxNum := int(nd.Byte()), int(nd.Byte())
	nd.Assume(nd.And(minSize >= 1, minSize <= n+1))
	nd.Assume(nd.And(maxNum >= 1, maxNum <= n+1))
	b.createBuckets(minSize, maxNum)
	nd.Assert(len(b.buckets) >= 1 && len(b.buckets) <= maxNum, "bucket-count-within-limit")
	at := 0
	for i, bk := range b.buckets {
		nd.Assert(bk.startOffset == at, "buckets-contiguous")
		nd.Assert(bk.endOffset > bk.startOffset, "bucket-non-empty")
		at = bk.endOffset
		if i+1 < len(b.buckets) {
			nd.Assert(!bytes.Equal(b.values[bk.endOffset-1].key, b.values[bk.endOffset].key), "equal-keys-stay-in-one-bucket")
		}
	}
	nd.Assert(at == n, "buckets-cover-everything")
}

type verifPair struct{ k, v []byte }

// verifExpectMap groups pairs into key -> values (in order of appearance).
func verifExpectMap(pairs []verifPair) []verifList {
	var out []verifList
	for _, p := range pairs {
		i := verifModelIndex(out, p.k)
		if i < 0 {
			out = append(out, verifList{key: p.k})
			i = len(out) - 1
		}
		out[i].vals = append(out[i].vals, p.v)
	}
	return out
}

func verifStoreEqualsMap(s *VerifSnap, want []verifList, tag string) {
	nd.Assert(len(s.Keys) == len(want), tag+":same-key-count")
	for _, m := range want {
		raw, ok := s.Get(m.key)
		nd.Assert(ok, tag+":key-present")
		got, wf := VerifDecodeValues(raw)
		nd.Assert(wf, tag+":values-well-formed")
		nd.Assert(verifSameMultiset(got, m.vals), tag+":no-value-lost-duplicated-or-altered")
	}
}

// H07_builder: ScheduleAdd x n -> sort -> buckets -> SST files (goroutines) -> ingest.
func H07_builder() {
	n := nd.Param("n")
	db := NewVerifDB()
	b := &Builder{db: db, writeOptions: &rocksdb.WriteOptions{}, path: "/sst", useHardlinks: true}
	var pairs []verifPair
	for i := 0; i < n; i++ {
		p := verifPair{nd.Bytes(1), nd.Bytes(1)}
		pairs = append(pairs, p)
		b.ScheduleAdd(p.k, p.v)
	}
	b.sortDataset()
	minSize, maxNum := 1+nd.Choice(2), 1+nd.Choice(3)
	b.createBuckets(minSize, maxNum)
	paths, err := b.saveBuckets()
	nd.Assert(err == nil, "sst-files-written-in-ascending-key-order")
	nd.Assert(b.ingestFiles(paths) == nil, "ingest-ok")
	verifStoreEqualsMap(db.Cur, verifExpectMap(pairs), "builder")
}

// ---- whole compilation: real Compile -> ParseStream (worker pool) -> builder or batches ----

var verifCompileDB *VerifDB

func verifNewBuilder(path string, useHardlinks bool) (*Builder, error) {
	return &Builder{db: verifCompileDB, writeOptions: &rocksdb.WriteOptions{}, path: path, useHardlinks: true}, nil
}

func verifNewRDBStub(path string) (*RDB, error) {
	return VerifNewRDB(verifCompileDB, false), nil
}

var verifC07Lines = []string{
	"+a.ex,192.0.2.1,300",
	"+a.ex,192.0.2.2,300",
	"'t.ex,hello,300",
	"%ab,10.0.0.0/8,mm",
	".z.ex,192.0.2.53,ns,3600",
	"+a.ex,192.0.2.1,300",
	"'t.ex,trailing blank ", // the blank at the end belongs to the text
}

const verifBadLine = "?not-a-record"

// verifTabLine: only blanks are skipped at the start of a line; a TAB makes the record type invalid
const verifTabLine = "\t+a.ex,192.0.2.9,300"

func H07_compile() {
	nlines := nd.Param("lines")
	var lines []string
	hasBad := false
	for i := 0; i < nlines; i++ {
		k := nd.Choice(len(verifC07Lines) + 2)
		if k == len(verifC07Lines) {
			lines = append(lines, verifBadLine)
			hasBad = true
		} else if k == len(verifC07Lines)+1 {
			lines = append(lines, verifTabLine)
			hasBad = true
		} else {
			lines = append(lines, verifC07Lines[k])
		}
	}
	var file []byte
	for _, l := range lines {
		file = append(file, l...)
		file = append(file, '\n')
	}
	opts := CompilationOptions{NumCPU: nd.Param("workers"), UseV2KeySyntax: nd.Bool(), UseBuilder: nd.Param("builder") == 1,
		BuilderUseHardlinks: true, BatchNumParallel: 1 + nd.Choice(2), BatchSize: 1 + nd.Choice(2)}
	verifCompileDB = NewVerifDB()
	if b := nd.Param("sched"); b > 0 {
		nd.SchedExplore(b)
	}
	_, err := Compile(bytes.NewReader(file), 1, "/dest", opts)
	if hasBad {
		nd.Assert(err != nil, "rejected-line-fails-the-compilation")
		return
	}
	nd.Assert(err == nil, "compilation-ok")

	// reference: the line-by-line codec
	codec := initCodec(1)
	codec.Features.UseV2Keys = opts.UseV2KeySyntax
	var pairs []verifPair
	add := func(recs []dnsdata.MapRecord) {
		for _, r := range recs {
			pairs = append(pairs, verifPair{r.Key, r.Value})
		}
	}
	for _, l := range lines {
		recs, cerr := codec.ConvertLn([]byte(l))
		nd.Assert(cerr == nil, "reference-codec-accepts")
		add(recs)
	}
	acc, aerr := codec.Acc.MarshalMap()
	nd.Assert(aerr == nil, "reference-acc")
	add(acc)
	f, ferr := codec.Features.MarshalMap()
	nd.Assert(ferr == nil, "reference-features")
	add(f)
	verifStoreEqualsMap(verifCompileDB.Cur, verifExpectMap(pairs), "compiled-database")
}

var _ = errors.New

package rdb

// Model of the RocksDB surface used by dnsrocks (contract = RocksDB's documented behaviour):
// an ordered key->value store with snapshot iterators, atomic write batches, secondary
// catch-up. Used symbolically by the harnesses and natively in replay.
//
// Substitutions for the cgo types (harness "*" = every harness that includes this file):
//verif:subst * (*github.com/facebookincubator/dns/dnsrocks/cgo-rocksdb.Batch).Put github.com/facebookincubator/dns/dnsrocks/dnsdata/rdb.VerifBatchPut
//verif:subst * (*github.com/facebookincubator/dns/dnsrocks/cgo-rocksdb.Batch).Delete github.com/facebookincubator/dns/dnsrocks/dnsdata/rdb.VerifBatchDelete
//verif:subst * (*github.com/facebookincubator/dns/dnsrocks/cgo-rocksdb.Batch).Destroy github.com/facebookincubator/dns/dnsrocks/dnsdata/rdb.VerifBatchDestroy
//verif:subst * (*github.com/facebookincubator/dns/dnsrocks/cgo-rocksdb.Batch).Clear github.com/facebookincubator/dns/dnsrocks/dnsdata/rdb.VerifBatchDestroy
//verif:subst * (*github.com/facebookincubator/dns/dnsrocks/cgo-rocksdb.Batch).GetCount github.com/facebookincubator/dns/dnsrocks/dnsdata/rdb.VerifBatchCount
//verif:subst * (*github.com/facebookincubator/dns/dnsrocks/cgo-rocksdb.Iterator).SeekForPrev github.com/facebookincubator/dns/dnsrocks/dnsdata/rdb.VerifIterSeekForPrev
//verif:subst * (*github.com/facebookincubator/dns/dnsrocks/cgo-rocksdb.Iterator).IsValid github.com/facebookincubator/dns/dnsrocks/dnsdata/rdb.VerifIterIsValid
//verif:subst * (*github.com/facebookincubator/dns/dnsrocks/cgo-rocksdb.Iterator).Key github.com/facebookincubator/dns/dnsrocks/dnsdata/rdb.VerifIterKey
//verif:subst * (*github.com/facebookincubator/dns/dnsrocks/cgo-rocksdb.Iterator).Value github.com/facebookincubator/dns/dnsrocks/dnsdata/rdb.VerifIterValue
//verif:subst * (*github.com/facebookincubator/dns/dnsrocks/cgo-rocksdb.Iterator).GetError github.com/facebookincubator/dns/dnsrocks/dnsdata/rdb.VerifIterGetError
//verif:subst * (*github.com/facebookincubator/dns/dnsrocks/cgo-rocksdb.Iterator).FreeIterator github.com/facebookincubator/dns/dnsrocks/dnsdata/rdb.VerifIterFree
//verif:subst * github.com/facebookincubator/dns/dnsrocks/cgo-rocksdb.CreateSSTFileWriter github.com/facebookincubator/dns/dnsrocks/dnsdata/rdb.VerifCreateSST
//verif:subst * (*github.com/facebookincubator/dns/dnsrocks/cgo-rocksdb.SSTFileWriter).Put github.com/facebookincubator/dns/dnsrocks/dnsdata/rdb.VerifSSTPut
//verif:subst * (*github.com/facebookincubator/dns/dnsrocks/cgo-rocksdb.SSTFileWriter).Finish github.com/facebookincubator/dns/dnsrocks/dnsdata/rdb.VerifSSTFinish
//verif:subst * (*github.com/facebookincubator/dns/dnsrocks/cgo-rocksdb.SSTFileWriter).GetFileSize github.com/facebookincubator/dns/dnsrocks/dnsdata/rdb.VerifSSTSize
//verif:subst * (*github.com/facebookincubator/dns/dnsrocks/cgo-rocksdb.SSTFileWriter).CloseWriter github.com/facebookincubator/dns/dnsrocks/dnsdata/rdb.VerifSSTClose
//verif:subst * (*github.com/facebookincubator/dns/dnsrocks/cgo-rocksdb.ReadOptions).FreeReadOptions github.com/facebookincubator/dns/dnsrocks/dnsdata/rdb.VerifFreeRO
//verif:subst * (*github.com/facebookincubator/dns/dnsrocks/cgo-rocksdb.WriteOptions).FreeWriteOptions github.com/facebookincubator/dns/dnsrocks/dnsdata/rdb.VerifFreeWO

import (
	"bytes"
	"errors"
	"sync"

	rocksdb "github.com/facebookincubator/dns/dnsrocks/cgo-rocksdb"
	"github.com/facebookincubator/dns/dnsrocks/zzverif/nd"
)

// VerifSnap is an immutable version of the store: keys sorted bytewise, unique.
type VerifSnap struct {
	Keys [][]byte
	Vals [][]byte
}

func verifCopy(b []byte) []byte {
	c := make([]byte, len(b))
	copy(c, b)
	return c
}

// locate returns the index of the first key >= k and whether it equals k.
func (s *VerifSnap) locate(k []byte) (int, bool) {
	for i, x := range s.Keys {
		c := bytes.Compare(x, k)
		if c == 0 {
			return i, true
		}
		if c > 0 {
			return i, false
		}
	}
	return len(s.Keys), false
}

// WithKV returns the store with k set to v.
func (s *VerifSnap) WithKV(k, v []byte) *VerifSnap { return s.with(k, v) }

func (s *VerifSnap) with(k, v []byte) *VerifSnap {
	i, found := s.locate(k)
	n := &VerifSnap{}
	n.Keys = append(n.Keys, s.Keys[:i]...)
	n.Vals = append(n.Vals, s.Vals[:i]...)
	n.Keys = append(n.Keys, verifCopy(k))
	n.Vals = append(n.Vals, verifCopy(v))
	if found {
		i++
	}
	n.Keys = append(n.Keys, s.Keys[i:]...)
	n.Vals = append(n.Vals, s.Vals[i:]...)
	return n
}

func (s *VerifSnap) without(k []byte) *VerifSnap {
	i, found := s.locate(k)
	if !found {
		return s
	}
	n := &VerifSnap{}
	n.Keys = append(n.Keys, s.Keys[:i]...)
	n.Vals = append(n.Vals, s.Vals[:i]...)
	n.Keys = append(n.Keys, s.Keys[i+1:]...)
	n.Vals = append(n.Vals, s.Vals[i+1:]...)
	return n
}

// Get returns the stored value (nil if absent).
func (s *VerifSnap) Get(k []byte) ([]byte, bool) {
	i, found := s.locate(k)
	if !found {
		return nil, false
	}
	return s.Vals[i], true
}

type verifOp struct {
	del  bool
	k, v []byte
}

// VerifDB implements DBI over the model.
type VerifDB struct {
	Cur        *VerifSnap
	Primary    *VerifDB // for secondaries: where CatchWithPrimary reads from
	Closed     bool
	Uses       int // operations performed
	UseAfterClose int
	Closes     int
	FailGet    bool // fault injection: reads return an error
	FailWrite  bool // fault injection: writes return an error (no effect)
	FailCatch  bool
	Writes     int // number of atomic write operations applied
	Name       string
	Ingested   [][]string
	mu         sync.Mutex
}

var ErrVerifInjected = errors.New("verif: injected storage error")

func NewVerifDB() *VerifDB { return &VerifDB{Cur: &VerifSnap{}} }

var (
	verifBatches = map[*rocksdb.Batch]*[]verifOp{}
	verifIters   = map[*rocksdb.Iterator]*verifIter{}
	VerifSSTs    = map[string]*VerifSnap{}
)

type verifIter struct {
	snap  *VerifSnap
	pos   int // -1 invalid
	freed bool
	db    *VerifDB
}

// VerifNoYield suppresses pre-emption points while a harness builds a store.
var VerifNoYield bool

func (d *VerifDB) touch() {
	if !VerifNoYield {
		nd.Yield() // every storage operation is a pre-emption point for schedule exploration
	}
	d.Uses++
	if d.Closed {
		d.UseAfterClose++
		if VerifCrashOnUseAfterClose {
			// RocksDB's C++ object is freed by Close: touching it afterwards crashes the process
			panic("rocksdb model: database used after CloseDatabase")
		}
	}
}

// VerifCrashOnUseAfterClose makes a use of a closed database a crash (C14) instead of a counted
// event (C06 judges those itself).
var VerifCrashOnUseAfterClose bool

func (d *VerifDB) Put(_ *rocksdb.WriteOptions, key, value []byte) error {
	d.touch()
	if d.FailWrite {
		return ErrVerifInjected
	}
	d.Cur = d.Cur.with(key, value)
	d.Writes++
	return nil
}

func (d *VerifDB) Get(_ *rocksdb.ReadOptions, key []byte) ([]byte, error) {
	d.touch()
	if d.FailGet {
		return nil, ErrVerifInjected
	}
	v, ok := d.Cur.Get(key)
	if !ok {
		return nil, nil
	}
	r := make([]byte, len(v)) // C.GoBytes: a fresh non-nil slice, also for length 0
	copy(r, v)
	return r, nil
}

func (d *VerifDB) Delete(_ *rocksdb.WriteOptions, key []byte) error {
	d.touch()
	if d.FailWrite {
		return ErrVerifInjected
	}
	d.Cur = d.Cur.without(key)
	d.Writes++
	return nil
}

func (d *VerifDB) NewBatch() *rocksdb.Batch {
	d.touch()
	b := &rocksdb.Batch{}
	ops := []verifOp{}
	verifBatches[b] = &ops
	return b
}

func (d *VerifDB) GetMulti(_ *rocksdb.ReadOptions, keys [][]byte) ([][]byte, []error) {
	d.touch()
	vals := make([][]byte, len(keys))
	errs := make([]error, len(keys))
	for i, k := range keys {
		if d.FailGet {
			errs[i] = ErrVerifInjected
			vals[i] = []byte{}
			continue
		}
		v, _ := d.Cur.Get(k)
		r := make([]byte, len(v)) // absent => C.GoBytes(nil,0) => empty slice
		copy(r, v)
		vals[i] = r
	}
	return vals, errs
}

func (d *VerifDB) ExecuteBatch(batch *rocksdb.Batch, _ *rocksdb.WriteOptions) error {
	d.touch()
	if d.FailWrite {
		return ErrVerifInjected
	}
	ops := verifBatches[batch]
	s := d.Cur
	for _, op := range *ops {
		if op.del {
			s = s.without(op.k)
		} else {
			s = s.with(op.k, op.v)
		}
	}
	d.Cur = s // one atomic step
	d.Writes++
	return nil
}

func (d *VerifDB) IngestSSTFiles(fileNames []string, _ bool) error {
	d.touch()
	if d.FailWrite {
		return ErrVerifInjected
	}
	s := d.Cur
	for _, f := range fileNames {
		sst := VerifSSTs[f]
		if sst == nil {
			return errors.New("verif: no such sst file " + f)
		}
		for i := range sst.Keys {
			s = s.with(sst.Keys[i], sst.Vals[i])
		}
	}
	d.Cur = s
	d.Ingested = append(d.Ingested, fileNames)
	return nil
}

func (d *VerifDB) Flush() error { d.touch(); return nil }

func (d *VerifDB) CreateIterator(_ *rocksdb.ReadOptions) *rocksdb.Iterator {
	d.touch()
	it := &rocksdb.Iterator{}
	verifIters[it] = &verifIter{snap: d.Cur, pos: -1, db: d}
	return it
}

func (d *VerifDB) CatchWithPrimary() error {
	d.touch()
	if d.FailCatch {
		return ErrVerifInjected
	}
	if d.Primary != nil {
		d.Cur = d.Primary.Cur
	}
	return nil
}

func (d *VerifDB) CloseDatabase() {
	d.Closes++
	d.Closed = true
}

func (d *VerifDB) GetProperty(string) string  { d.touch(); return "0" }
func (d *VerifDB) GetOptions() *rocksdb.Options { d.touch(); return nil }
func (d *VerifDB) CompactRangeAll()           { d.touch() }

// ---- stubs for the cgo types ----

func VerifBatchPut(b *rocksdb.Batch, key, value []byte) {
	ops := verifBatches[b]
	*ops = append(*ops, verifOp{k: verifCopy(key), v: verifCopy(value)})
}

func VerifBatchDelete(b *rocksdb.Batch, key []byte) {
	ops := verifBatches[b]
	*ops = append(*ops, verifOp{del: true, k: verifCopy(key)})
}

func VerifBatchDestroy(b *rocksdb.Batch) {}

func VerifBatchCount(b *rocksdb.Batch) int { return len(*verifBatches[b]) }

func VerifIterSeekForPrev(it *rocksdb.Iterator, key []byte) {
	m := verifIters[it]
	m.db.touch()
	i, found := m.snap.locate(key)
	if found {
		m.pos = i
	} else {
		m.pos = i - 1 // largest key < target, or -1
	}
}

func VerifIterIsValid(it *rocksdb.Iterator) bool { return verifIters[it].pos >= 0 }

func VerifIterKey(it *rocksdb.Iterator) []byte {
	m := verifIters[it]
	return verifCopy(m.snap.Keys[m.pos])
}

func VerifIterValue(it *rocksdb.Iterator) []byte {
	m := verifIters[it]
	return verifCopy(m.snap.Vals[m.pos])
}

func VerifIterGetError(it *rocksdb.Iterator) error { return nil }

func VerifIterFree(it *rocksdb.Iterator) { verifIters[it].freed = true }

func VerifFreeRO(*rocksdb.ReadOptions)  {}
func VerifFreeWO(*rocksdb.WriteOptions) {}

// VerifNewRDB wraps a model DB into an *RDB the way NewRDB/NewReader do (without files).
func VerifNewRDB(db DBI, secondary bool) *RDB {
	r := &RDB{
		db:           db,
		writeMutex:   &sync.Mutex{},
		readOptions:  &rocksdb.ReadOptions{},
		writeOptions: &rocksdb.WriteOptions{},
		secondary:    secondary,
	}
	r.iteratorPool = newIteratorPool(func() *rocksdb.Iterator { return db.CreateIterator(r.readOptions) })
	r.iteratorPool.enable()
	return r
}

// VerifDecodeValues splits a stored multi-value into its chunks (independent of the code under test).
func VerifDecodeValues(data []byte) ([][]byte, bool) {
	var out [][]byte
	for len(data) > 0 {
		if len(data) < 4 {
			return out, false
		}
		n := int(data[0]) | int(data[1])<<8 | int(data[2])<<16 | int(data[3])<<24
		if len(data) < 4+n {
			return out, false
		}
		out = append(out, data[4:4+n])
		data = data[4+n:]
	}
	return out, true
}

// VerifEncodeValues is the inverse of VerifDecodeValues.
func VerifEncodeValues(vals [][]byte) []byte {
	var out []byte
	for _, v := range vals {
		n := len(v)
		out = append(out, byte(n), byte(n>>8), byte(n>>16), byte(n>>24))
		out = append(out, v...)
	}
	return out
}

// VerifModelOf returns the model behind an *RDB built by VerifNewRDB.
func VerifModelOf(r *RDB) *VerifDB {
	m, _ := r.db.(*VerifDB)
	return m
}

// ---- SST file writer model: keys must be added in strictly ascending order (RocksDB's
// documented contract for SstFileWriter); a finished file can be ingested. ----

type verifSST struct {
	path     string
	snap     *VerifSnap
	finished bool
}

var verifSSTWriters = map[*rocksdb.SSTFileWriter]*verifSST{}

var ErrVerifSSTOrder = errors.New("verif: SST keys must be added in strictly ascending order")

func VerifCreateSST(path string) (*rocksdb.SSTFileWriter, error) {
	w := &rocksdb.SSTFileWriter{}
	verifSSTWriters[w] = &verifSST{path: path, snap: &VerifSnap{}}
	return w, nil
}

func VerifSSTPut(w *rocksdb.SSTFileWriter, key, value []byte) error {
	m := verifSSTWriters[w]
	if n := len(m.snap.Keys); n > 0 && bytes.Compare(m.snap.Keys[n-1], key) >= 0 {
		return ErrVerifSSTOrder
	}
	m.snap.Keys = append(m.snap.Keys, verifCopy(key))
	m.snap.Vals = append(m.snap.Vals, verifCopy(value))
	return nil
}

func VerifSSTFinish(w *rocksdb.SSTFileWriter) error {
	m := verifSSTWriters[w]
	m.finished = true
	VerifSSTs[m.path] = m.snap
	return nil
}

func VerifSSTSize(w *rocksdb.SSTFileWriter) uint64 { return uint64(len(verifSSTWriters[w].snap.Keys)) }
func VerifSSTClose(w *rocksdb.SSTFileWriter)       {}

package dnsdata

// In-package constructors used by the harnesses of other packages (exist only in the
// analysis and replay builds).

import (
	"net"
)

// VerifSubnet is a declared subnet in the 128-bit form Rnet.UnmarshalText produces:
// a 16-byte address (IPv4 as ::ffff:a.b.c.d) and a prefix length in 0..128 (IPv4: 96+n).
type VerifSubnet struct {
	IP   [16]byte
	Ones int
	Loc  [2]byte
}

// VerifNewCodec returns a codec configured like the CDB compiler (prefix sets + Rnet
// output) or like the RocksDB compiler (rdb.initCodec: range points only).
func VerifNewCodec(rocks bool) *Codec {
	c := new(Codec)
	if rocks {
		c.Acc.Ranger.Enable()
		c.Acc.NoPrefixSets = true
		c.NoRnetOutput = true
	}
	return c
}

// VerifAddSubnet feeds one subnet of map lmap through the real accumulator (prefix sets,
// SubnetRanger.addSubnet -> Rearranger.AddLocation) and returns the records the Rnet
// itself marshals to, exactly as Codec.ConvertLn does for a '%' line.
func VerifAddSubnet(c *Codec, lmap [2]byte, s VerifSubnet) ([]MapRecord, error) {
	ip := make(net.IP, 16)
	copy(ip, s.IP[:])
	r := &Rnet{
		lo:    Loc(append([]byte{}, s.Loc[:]...)),
		ipnet: &net.IPNet{IP: ip, Mask: net.CIDRMask(s.Ones, 128)},
		lmap:  Lmap(lmap),
		c:     c,
	}
	if err := c.Acc.update(r); err != nil {
		return nil, err
	}
	return r.MarshalMap()
}

// VerifAccRecords returns the accumulator's records (prefix sets and/or range points).
func VerifAccRecords(c *Codec) ([]MapRecord, error) { return c.Acc.MarshalMap() }

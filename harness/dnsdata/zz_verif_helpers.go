package dnsdata

// In-package constructors used by the harnesses of other packages (exist only in the
// analysis and replay builds).

import (
	"net"
)

// VerifSubnet is a declared subnet in the 128-bit form Rnet.UnmarshalText produces:
// a 16-byte address (IPv4 as ::ffff:a.b.c.d) and a prefix length in 0..128 (IPv4: 96+n).
type VerifSubnet struct {
	IP   [16]byte
	Ones int
	Loc  [2]byte
}

// VerifNewCodec returns a codec configured like the CDB compiler (prefix sets + Rnet
// output) or like the RocksDB compiler (rdb.initCodec: range points only).
func VerifNewCodec(rocks bool) *Codec {
	c := new(Codec)
	if rocks {
		c.Acc.Ranger.Enable()
		c.Acc.NoPrefixSets = true
		c.NoRnetOutput = true
	}
	return c
}

// VerifAddSubnet feeds one subnet of map lmap through the real accumulator (prefix sets,
// SubnetRanger.addSubnet -> Rearranger.AddLocation) and returns the records the Rnet
// itself marshals to, exactly as Codec.ConvertLn does for a '%' line.
func VerifAddSubnet(c *Codec, lmap [2]byte, s VerifSubnet) ([]MapRecord, error) {
	ip := make(net.IP, 16)
	copy(ip, s.IP[:])
	r := &Rnet{
		lo:    Loc(append([]byte{}, s.Loc[:]...)),
		ipnet: &net.IPNet{IP: ip, Mask: net.CIDRMask(s.Ones, 128)},
		lmap:  Lmap(lmap),
		c:     c,
	}
	if err := c.Acc.update(r); err != nil {
		return nil, err
	}
	return r.MarshalMap()
}

// VerifAccRecords returns the accumulator's records (prefix sets and/or range points).
func VerifAccRecords(c *Codec) ([]MapRecord, error) { return c.Acc.MarshalMap() }

// VerifRec is an abstract data-file record (one line of the data file, already split into
// fields); VerifMarshalRec builds the real record struct the line's UnmarshalText would build
// and returns its real MarshalMap output.
type VerifRec struct {
	Kind   byte // 'Z' SOA, '&' NS (+glue when IP != nil), '+' address, 'C' CNAME, '\'' TXT, '@' MX (+address when IP != nil), 'M' resolver map, '8' ECS map, '%' subnet, ':' generic
	Dom    []byte // owner name in text form, no trailing dot ("c.z"), "" or "." for the root
	Wild   bool   // "*." + Dom
	Loc    []byte // nil or 2 bytes
	TTL    uint32
	Target []byte // NS / CNAME / MX host, SOA primary
	IP     []byte // 4 or 16 bytes
	Weight uint32
	Txt    []byte
	Dist   uint32
	Rtype  uint16 // for ':'
	Lmap   [2]byte
	Ones   int // for '%': prefix length in the 128-bit scale
}

func (r VerifRec) shared() rshared {
	var lo Loc
	if len(r.Loc) == 2 {
		lo = Loc(append([]byte{}, r.Loc...))
	}
	return rshared{ttl: r.TTL, lo: lo, dom: r.Dom, iswildcard: r.Wild}
}

// VerifMarshalRec: see VerifRec.
func VerifMarshalRec(c *Codec, r VerifRec) ([]MapRecord, error) {
	var rec Record
	switch r.Kind {
	case 'Z':
		s := &Rsoa{rshared: r.shared(), c: c, ns: r.Target, adm: []byte("hostmaster." + string(r.Dom))}
		s.ser, s.ref, s.ret, s.exp, s.min = 1, 16384, 2048, 1048576, 2560
		rec = s
	case '&':
		n := &Rns{c: c}
		n.Rns1 = Rns1{rshared: r.shared(), c: c, ns: r.Target}
		n.Rns1.iswildcard = false
		n.Raddr = Raddr{rshared: rshared{ttl: r.TTL, lo: n.Rns1.lo, dom: r.Target}, c: c, weight: 1}
		if r.IP != nil {
			n.Raddr.ip = net.IP(append([]byte{}, r.IP...))
		}
		rec = n
	case '+':
		rec = &Raddr{rshared: r.shared(), c: c, ip: net.IP(append([]byte{}, r.IP...)), weight: r.Weight}
	case 'C':
		rec = &Rcname{rshared: r.shared(), c: c, cname: r.Target}
	case '\'':
		rec = &Rtxt{rshared: r.shared(), c: c, txt: r.Txt}
	case '@':
		m := &Rmx{c: c}
		m.Rmx1 = Rmx1{rshared: r.shared(), c: c, mx: r.Target, dist: r.Dist}
		m.Raddr = Raddr{rshared: rshared{ttl: r.TTL, lo: m.Rmx1.lo, dom: r.Target}, c: c, weight: 1}
		if r.IP != nil {
			m.Raddr.ip = net.IP(append([]byte{}, r.IP...))
		}
		rec = m
	case ':':
		rec = &Raux{rshared: r.shared(), c: c, rtype: WireType(r.Rtype), rdata: r.Txt}
	case 'M':
		d := r.Dom
		if r.Wild {
			d = append([]byte("*."), d...)
		}
		rec = &Ripmap{dom: d, lmap: Lmap(r.Lmap), c: c}
	case '8':
		d := r.Dom
		if r.Wild {
			d = append([]byte("*."), d...)
		}
		rec = (*Rcsmap)(&Ripmap{dom: d, lmap: Lmap(r.Lmap), c: c})
	case '%':
		var ip [16]byte
		copy(ip[:], r.IP)
		var loc [2]byte
		copy(loc[:], r.Loc)
		return VerifAddSubnet(c, r.Lmap, VerifSubnet{IP: ip, Ones: r.Ones, Loc: loc})
	default:
		return nil, ErrBadRType
	}
	if err := c.Acc.update(rec); err != nil {
		return nil, err
	}
	return rec.MarshalMap()
}

// VerifFinish returns the accumulator and feature records emitted after the last line.
func VerifFinish(c *Codec) ([]MapRecord, error) {
	acc, err := c.Acc.MarshalMap()
	if err != nil {
		return nil, err
	}
	f, err := c.Features.MarshalMap()
	if err != nil {
		return nil, err
	}
	return append(acc, f...), nil
}

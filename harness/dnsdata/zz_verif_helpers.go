package dnsdata

// In-package constructors used by the harnesses of other packages (exist only in the
// analysis and replay builds).

import (
	"net"
)

// VerifSubnet is a declared subnet in the 128-bit form Rnet.UnmarshalText produces:
// a 16-byte address (IPv4 as ::ffff:a.b.c.d) and a prefix length in 0..128 (IPv4: 96+n).
type VerifSubnet struct {
	IP   [16]byte
	Ones int
	Loc  [2]byte
}

// VerifNewCodec returns a codec configured like the CDB compiler (prefix sets + Rnet
// output) or like the RocksDB compiler (rdb.initCodec: range points only).
func VerifNewCodec(rocks bool) *Codec {
	c := new(Codec)
	if rocks {
		c.Acc.Ranger.Enable()
		c.Acc.NoPrefixSets = true
		c.NoRnetOutput = true
	}
	return c
}

// VerifAddSubnet feeds one subnet of map lmap through the real accumulator (prefix sets,
// SubnetRanger.addSubnet -> Rearranger.AddLocation) and returns the records the Rnet
// itself marshals to, exactly as Codec.ConvertLn does for a '%' line.
func VerifAddSubnet(c *Codec, lmap [2]byte, s VerifSubnet) ([]MapRecord, error) {
	ip := make(net.IP, 16)
	copy(ip, s.IP[:])
	r := &Rnet{
		lo:    Loc(append([]byte{}, s.Loc[:]...)),
		ipnet: &net.IPNet{IP: ip, Mask: net.CIDRMask(s.Ones, 128)},
		lmap:  Lmap(lmap),
		c:     c,
	}
	if err := c.Acc.update(r); err != nil {
		return nil, err
	}
	return r.MarshalMap()
}

// VerifAccRecords returns the accumulator's records (prefix sets and/or range points).
func VerifAccRecords(c *Codec) ([]MapRecord, error) { return c.Acc.MarshalMap() }

// VerifRec is an abstract data-file record (one line of the data file, already split into
// fields); VerifMarshalRec builds the real record struct the line's UnmarshalText would build
// and returns its real MarshalMap output.
type VerifRec struct {
	Kind   byte // text mode only: '.' SOA+NS(+glue), 'S' SRV (port=Rtype, priority=Dist), '^' PTR, '=' A+PTR, 'B'/'H' SVCB/HTTPS (priority=Dist, params=Txt); both modes: 'Z' SOA, '&' NS (+glue when IP != nil), '+' address, 'C' CNAME, '\'' TXT, '@' MX (+address when IP != nil), 'M' resolver map, '8' ECS map, '%' subnet, ':' generic
	Dom    []byte // owner name in text form, no trailing dot ("c.z"), "" or "." for the root
	Wild   bool   // "*." + Dom
	Loc    []byte // nil or 2 bytes
	TTL    uint32
	DefTTL bool   // text mode: leave the TTL field empty (the documented default applies)
	Target []byte // NS / CNAME / MX host, SOA primary
	IP     []byte // 4 or 16 bytes
	Weight uint32
	Txt    []byte
	Dist   uint32
	Rtype  uint16 // for ':'
	Lmap   [2]byte
	Ones   int // for '%': prefix length in the 128-bit scale
}

func (r VerifRec) shared() rshared {
	var lo Loc
	if len(r.Loc) == 2 {
		lo = Loc(append([]byte{}, r.Loc...))
	}
	return rshared{ttl: r.TTL, lo: lo, dom: r.Dom, iswildcard: r.Wild}
}

// VerifViaText makes VerifMarshalRec go through the data-file text: the record is written as a
// line (VerifRecLine, a statement of the documented syntax that is independent of the
// repository's MarshalText) and compiled by the real Codec.ConvertLn, so that the text parser is
// part of what the harness executes. Fields other than locations and map ids must then be concrete.
var VerifViaText bool

func verifOct(out []byte, b byte) []byte {
	return append(out, '\\', '0'+(b>>6)&7, '0'+(b>>3)&7, '0'+b&7)
}

func verifTextName(out []byte, dom []byte, wild bool) []byte {
	if wild {
		out = append(out, '*', '.')
	}
	for _, b := range dom {
		if b >= 'a' && b <= 'z' || b >= 'A' && b <= 'Z' || b >= '0' && b <= '9' || b == '-' || b == '.' || b == '_' {
			out = append(out, b)
		} else {
			out = verifOct(out, b)
		}
	}
	return out
}

func verifTextUint(out []byte, v uint64) []byte {
	if v >= 10 {
		out = verifTextUint(out, v/10)
	}
	return append(out, '0'+byte(v%10))
}

func verifTextIP(out []byte, ip []byte) []byte {
	if len(ip) == 16 {
		mapped := ip[10] == 0xff && ip[11] == 0xff
		for i := 0; i < 10; i++ {
			mapped = mapped && ip[i] == 0
		}
		if !mapped {
			const hex = "0123456789abcdef"
			for i := 0; i < 16; i += 2 {
				if i > 0 {
					out = append(out, ':')
				}
				out = append(out, hex[ip[i]>>4], hex[ip[i]&15], hex[ip[i+1]>>4], hex[ip[i+1]&15])
			}
			return out
		}
		ip = ip[12:]
	}
	for i := 0; i < len(ip) && i < 4; i++ {
		if i > 0 {
			out = append(out, '.')
		}
		out = verifTextUint(out, uint64(ip[i]))
	}
	return out
}

func verifTextLoc(out []byte, lo []byte) []byte {
	if len(lo) == 2 {
		out = verifOct(verifOct(out, lo[0]), lo[1])
	}
	return out
}

// VerifRecLine writes r as a data-file line (fields separated by commas, every optional field
// given explicitly except the timestamp).
func VerifRecLine(r VerifRec) []byte {
	out := []byte{r.Kind}
	name := func() { out = verifTextName(out, r.Dom, r.Wild) }
	sep := func() { out = append(out, ',') }
	tail := func() { // ttl,timestamp,lo
		if !r.DefTTL {
			out = verifTextUint(out, uint64(r.TTL))
		}
		sep()
		sep()
		out = verifTextLoc(out, r.Loc)
	}
	switch r.Kind {
	case 'Z': // Zfqdn,mname,rname,ser,ref,ret,exp,min,ttl,timestamp,lo
		name()
		sep()
		out = verifTextName(out, r.Target, false)
		out = append(out, ",hostmaster."...)
		out = verifTextName(out, r.Dom, false)
		out = append(out, ",1,16384,2048,1048576,2560,"...)
		tail()
	case '.', '&': // fqdn,ip,x,ttl,timestamp,lo
		name()
		sep()
		out = verifTextIP(out, r.IP)
		sep()
		out = verifTextName(out, r.Target, false)
		sep()
		tail()
	case '+': // +fqdn,ip,ttl,timestamp,lo,weight
		name()
		sep()
		out = verifTextIP(out, r.IP)
		sep()
		tail()
		sep()
		out = verifTextUint(out, uint64(r.Weight))
	case 'C': // Cfqdn,target,ttl,timestamp,lo
		name()
		sep()
		out = verifTextName(out, r.Target, false)
		sep()
		tail()
	case '\'': // 'fqdn,text,ttl,timestamp,lo
		name()
		sep()
		out = verifTextName(out, r.Txt, false)
		sep()
		tail()
	case '@': // @fqdn,ip,x,dist,ttl,timestamp,lo
		name()
		sep()
		out = verifTextIP(out, r.IP)
		sep()
		out = verifTextName(out, r.Target, false)
		sep()
		out = verifTextUint(out, uint64(r.Dist))
		sep()
		tail()
	case 'S': // Sfqdn,ip,x,port,priority,weight,ttl,timestamp,lo (port in Rtype, priority in Dist)
		name()
		sep()
		out = verifTextIP(out, r.IP)
		sep()
		out = verifTextName(out, r.Target, false)
		sep()
		out = verifTextUint(out, uint64(r.Rtype))
		sep()
		out = verifTextUint(out, uint64(r.Dist))
		sep()
		out = verifTextUint(out, uint64(r.Weight))
		sep()
		tail()
	case '^': // ^fqdn,p,ttl,timestamp,lo
		name()
		sep()
		out = verifTextName(out, r.Target, false)
		sep()
		tail()
	case '=': // =fqdn,ip,ttl,timestamp,lo
		name()
		sep()
		out = verifTextIP(out, r.IP)
		sep()
		tail()
	case 'B', 'H': // fqdn,target,ttl,lo,priority,params (params in Txt, verbatim)
		name()
		sep()
		out = verifTextName(out, r.Target, false)
		sep()
		out = verifTextUint(out, uint64(r.TTL))
		sep()
		out = verifTextLoc(out, r.Loc)
		sep()
		out = verifTextUint(out, uint64(r.Dist))
		sep()
		out = append(out, r.Txt...)
	case ':': // :fqdn,type,rdata,ttl,timestamp,lo
		name()
		sep()
		out = verifTextUint(out, uint64(r.Rtype))
		sep()
		out = verifTextName(out, r.Txt, false)
		sep()
		tail()
	case 'M', '8': // fqdn,lmap
		name()
		sep()
		out = verifOct(verifOct(out, r.Lmap[0]), r.Lmap[1])
	case '%': // %lo,ip/len,lmap
		out = verifTextLoc(out, r.Loc)
		sep()
		out = verifTextIP(out, r.IP)
		out = append(out, '/')
		ones := r.Ones
		if len(verifTextIP(nil, r.IP)) > 0 && !bytesContainsColon(verifTextIP(nil, r.IP)) {
			ones -= 96
		}
		out = verifTextUint(out, uint64(ones))
		sep()
		out = verifOct(verifOct(out, r.Lmap[0]), r.Lmap[1])
	}
	return out
}

func bytesContainsColon(b []byte) bool {
	for _, c := range b {
		if c == ':' {
			return true
		}
	}
	return false
}

// VerifMarshalRec: see VerifRec.
func VerifMarshalRec(c *Codec, r VerifRec) ([]MapRecord, error) {
	if VerifViaText {
		return c.ConvertLn(VerifRecLine(r))
	}
	var rec Record
	switch r.Kind {
	case 'Z':
		s := &Rsoa{rshared: r.shared(), c: c, ns: r.Target, adm: []byte("hostmaster." + string(r.Dom))}
		s.ser, s.ref, s.ret, s.exp, s.min = 1, 16384, 2048, 1048576, 2560
		rec = s
	case '&':
		n := &Rns{c: c}
		n.Rns1 = Rns1{rshared: r.shared(), c: c, ns: r.Target}
		n.Rns1.iswildcard = false
		n.Raddr = Raddr{rshared: rshared{ttl: r.TTL, lo: n.Rns1.lo, dom: r.Target}, c: c, weight: 1}
		if r.IP != nil {
			n.Raddr.ip = net.IP(append([]byte{}, r.IP...))
		}
		rec = n
	case '+':
		rec = &Raddr{rshared: r.shared(), c: c, ip: net.IP(append([]byte{}, r.IP...)), weight: r.Weight}
	case 'C':
		rec = &Rcname{rshared: r.shared(), c: c, cname: r.Target}
	case '\'':
		rec = &Rtxt{rshared: r.shared(), c: c, txt: r.Txt}
	case '@':
		m := &Rmx{c: c}
		m.Rmx1 = Rmx1{rshared: r.shared(), c: c, mx: r.Target, dist: r.Dist}
		m.Raddr = Raddr{rshared: rshared{ttl: r.TTL, lo: m.Rmx1.lo, dom: r.Target}, c: c, weight: 1}
		if r.IP != nil {
			m.Raddr.ip = net.IP(append([]byte{}, r.IP...))
		}
		rec = m
	case ':':
		rec = &Raux{rshared: r.shared(), c: c, rtype: WireType(r.Rtype), rdata: r.Txt}
	case 'M':
		d := r.Dom
		if r.Wild {
			d = append([]byte("*."), d...)
		}
		rec = &Ripmap{dom: d, lmap: Lmap(r.Lmap), c: c}
	case '8':
		d := r.Dom
		if r.Wild {
			d = append([]byte("*."), d...)
		}
		rec = (*Rcsmap)(&Ripmap{dom: d, lmap: Lmap(r.Lmap), c: c})
	case '%':
		var ip [16]byte
		copy(ip[:], r.IP)
		var loc [2]byte
		copy(loc[:], r.Loc)
		return VerifAddSubnet(c, r.Lmap, VerifSubnet{IP: ip, Ones: r.Ones, Loc: loc})
	default:
		return nil, ErrBadRType
	}
	if err := c.Acc.update(rec); err != nil {
		return nil, err
	}
	return rec.MarshalMap()
}

// VerifFinish returns the accumulator and feature records emitted after the last line.
func VerifFinish(c *Codec) ([]MapRecord, error) {
	acc, err := c.Acc.MarshalMap()
	if err != nil {
		return nil, err
	}
	f, err := c.Features.MarshalMap()
	if err != nil {
		return nil, err
	}
	return append(acc, f...), nil
}

package quote

// C17 — quoting is a bijection that never emits a field separator.

import (
	"bytes"

	"github.com/facebookincubator/dns/dnsrocks/zzverif/nd"
)

//verif:harness H17_roundtrip property=C17 quick=n=0;n=1;n=2 thorough=n=0;n=1;n=2;n=3

// H17_roundtrip: for every byte string b of length n, Bunquote(Bquote(b)) == b and the quoted
// form contains no ',', ':' or newline.
func H17_roundtrip() {
	n := nd.Param("n")
	b := nd.Bytes(n)
	orig := append([]byte{}, b...)
	q := Bquote(b)
	for _, c := range q {
		nd.Assert(c != ',' && c != ':' && c != '\n', "no-separator")
	}
	u, err := Bunquote(q)
	nd.Assert(err == nil, "unquote-ok")
	nd.Assert(bytes.Equal(u, orig), "roundtrip")
}

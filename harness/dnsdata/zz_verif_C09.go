package dnsdata

// C09 — text normal form and preprocessing preserve meaning (round-trip part).
//
// For each of the 17 record types a well-formed line is assembled from a template: the owner
// name has one free byte from a pool of character classes (passed through the real Bquote),
// text/rdata fields hold one or two raw bytes from the same pool (quoted by the real Bquote), numeric
// fields are symbolic decimal digits (absent or one; absent, one or two for two of the types), the location is absent or two
// symbolic bytes in \ooo form, the owner may be a wildcard, the separator is ',' or ':'.
// line -> DecodeLn -> r1 -> MarshalText -> t1 -> DecodeLn -> r2 -> MarshalText -> t2:
// MarshalMap(r1) == MarshalMap(r2) and t1 == t2.

import (
	"bytes"

	"github.com/facebookincubator/dns/dnsrocks/dnsdata/quote"
	"github.com/facebookincubator/dns/dnsrocks/zzverif/nd"
)

//verif:harness H09_roundtrip property=C09 native=yes quick=from=0,to=9,v2=0,own=4,xs=1;from=9,to=17,v2=1,own=4,xs=1;from=17,to=18,v2=1,own=1,xs=2 thorough=from=0,to=9,v2=1,own=14,xs=1;from=11,to=17,v2=0,own=8,xs=1;from=9,to=11,v2=0,own=2,xs=2

var verifC09Templates = []string{
	"Z%n,a.ns.ex,adm.ex,%d,,,,,%t,,%l",
	".%n,192.0.2.1,a,%t,,%l",
	"&%n,,b.ns.ex,%t,,%l",
	"+%w%n,192.0.2.2,%T,,%l,%d",
	"=%n,192.0.2.3,%t,,%l",
	"@%n,,mx,%d,%t,,%l",
	"S%n,,srv,%d,,443,%t,,%l",
	"C%w%n,target.ex,%T,,%l",
	"^%n,host.ex,%t,,%l",
	"'%w%n,%x,%t,,%l",
	":%n,99,%x,%t,,%l",
	"%%L,192.0.2.0/24,mm",
	"M%w%n,mm",
	"8%w%n,mm",
	"!mm,10.0.0.0,%d,ab",
	"B%n,t.ex,%t,%l,%d,port=53",
	"H%n,t.ex,%t,%l,%d,alpn=h2",
	"'t.ex,%x", // lean text line: the only free part is the text field (used with xs=2)
	"'%n,%x",   // lean text line with a free owner byte and a free text field
}

var verifOwnerBytes = []byte{'a', 'A', '\\', ',', 0xff, '*', ':', ' ', 0x00, 0x7f, '-', '_', '7', '.'}

func verifDigit() byte {
	d := nd.Byte()
	nd.Assume(nd.And(d >= '0', d <= '9'))
	return d
}

func verifOctal(b byte) []byte {
	return []byte{'\\', '0' + (b>>6)&7, '0' + (b>>3)&7, '0' + b&7}
}

// verifExpand renders a template; sep replaces the ',' field separators.
var verifDigits []byte // the %d digits of the last expansion, in order
var verifRawText []byte // the raw bytes behind the %x field of the last expansion
var verifRawOwner []byte // the raw owner name behind the %n field of the last expansion

func verifExpand(tmpl string, sep byte) []byte {
	var out []byte
	verifDigits, verifRawText, verifRawOwner = nil, nil, nil
	for i := 0; i < len(tmpl); i++ {
		c := tmpl[i]
		if c == ',' {
			out = append(out, sep)
			continue
		}
		if c != '%' {
			out = append(out, c)
			continue
		}
		i++
		switch tmpl[i] {
		case '%':
			out = append(out, '%')
		case 'n': // owner: one byte from the class pool + ".ex", quoted
			raw := []byte{verifOwnerBytes[nd.Choice(nd.Param("own"))], 'o', '.', 'e', 'x'}
			verifRawOwner = raw
			out = append(out, quote.Bquote(raw)...)
		case 'w': // optional wildcard prefix, written plainly or with its bytes as octal escapes
			switch nd.Choice(3) {
			case 1:
				out = append(out, '*', '.')
			case 2:
				out = append(out, verifOctal('*')...)
				out = append(out, '.')
			}
		case 'x': // raw text bytes, arbitrary (solver-chosen), quoted by the real Bquote
			raw := make([]byte, nd.Param("xs"))
			for k := range raw {
				raw[k] = nd.Byte()
			}
			verifRawText = raw
			out = append(out, quote.Bquote(raw)...)
		case 't', 'T', 'd': // decimal digits: %t absent or one, %T absent/one/two, %d exactly one
			n := 1
			if tmpl[i] == 't' {
				n = nd.Choice(2)
			}
			if tmpl[i] == 'T' {
				n = nd.Choice(3)
			}
			for k := 0; k < n; k++ {
				d := verifDigit()
				if tmpl[i] == 'd' {
					verifDigits = append(verifDigits, d)
				}
				out = append(out, d)
			}
		case 'l', 'L': // location: %l absent or two bytes, %L always two bytes
			if tmpl[i] == 'L' || nd.Bool() {
				// bound: location bytes 0..63 (leading octal digit 0; the digit selects a case
				// of a switch in strconv.UnquoteChar and would split every path four ways)
				out = append(out, verifOctal(nd.Byte()&0x3f)...)
				out = append(out, verifOctal(nd.Byte()&0x3f)...)
			}
		}
	}
	return out
}

func verifSameRecords(a, b []MapRecord, tag string) {
	nd.Assert(len(a) == len(b), tag+":same-record-count")
	for i := range a {
		nd.Assert(bytes.Equal(a[i].Key, b[i].Key), tag+":same-key")
		nd.Assert(bytes.Equal(a[i].Value, b[i].Value), tag+":same-value")
	}
}

//verif:harness H17_field property=C17 native=yes quick=from=17,to=18,v2=1,own=1,xs=2;from=18,to=19,v2=1,own=14,xs=1 thorough=from=9,to=11,v2=0,own=14,xs=1

// H17_field: C17's field-level clause (a name, text or rdata placed in a data-file field is read
// back unchanged) is the "means the quoted bytes" part of the C09 round-trip harness on the text
// and generic-rdata templates.
func H17_field() { H09_roundtrip() }

func H09_roundtrip() {
	from, to := nd.Param("from"), nd.Param("to")
	ti := from + nd.Choice(to-from)
	sep := byte(',')
	if ti != 11 && nd.Bool() { // the subnet template contains a CIDR; ':' is fine for the others (IPv4 only)
		sep = ':'
	}
	line := verifExpand(verifC09Templates[ti], sep)
	// recorded finding: an explicit SOA serial 0 is printed as an empty field and re-parses
	// as the codec's default serial
	nd.Known("C09-soa-explicit-serial-zero", ti == 0 && verifDigits[0] == '0')
	codec := new(Codec)
	codec.Serial = 7
	codec.Features.UseV2Keys = nd.Param("v2") == 1

	r1, err := codec.DecodeLn(line)
	nd.Assume(err == nil) // well-formed lines only
	// meaning: the text field of the parsed record is the byte string that was written
	switch x := r1.(type) {
	case *Rtxt:
		nd.Assert(bytes.Equal(x.txt, verifRawText), "text-field-means-the-quoted-bytes")
		if verifRawOwner != nil {
			nd.Assert(bytes.Equal(x.dom, verifRawOwner), "owner-field-means-the-quoted-bytes")
		}
	case *Raux:
		nd.Assert(bytes.Equal(x.rdata, verifRawText), "generic-rdata-means-the-quoted-bytes")
	}
	m1, err := r1.MarshalMap()
	nd.Assert(err == nil, "marshalmap-1")
	tm1, ok := r1.(interface{ MarshalText() ([]byte, error) })
	nd.Assert(ok, "record-has-text-form")
	t1, err := tm1.MarshalText()
	nd.Assert(err == nil, "marshaltext-1")

	r2, err := codec.DecodeLn(t1)
	nd.Assert(err == nil, "normal-form-parses")
	m2, err := r2.MarshalMap()
	nd.Assert(err == nil, "marshalmap-2")
	verifSameRecords(m1, m2, "reparsed-normal-form-compiles-identically")
	t2, err := r2.(interface{ MarshalText() ([]byte, error) }).MarshalText()
	nd.Assert(err == nil, "marshaltext-2")
	nd.Assert(bytes.Equal(t1, t2), "normal-form-is-a-fixed-point")
}

// Package nd is the harness API for solver-based checking. Under the symbolic executor
// (gosym) every function here is intercepted by name; compiled natively it replays the
// concrete values of a counterexample read from the file named by $VERIF_REPLAY.
package nd

import (
	"encoding/json"
	"fmt"
	"math"
	"os"
)

type rec struct {
	Kind  string `json:"kind"`
	Width int    `json:"width"`
	Value uint64 `json:"value"`
}

type replayFile struct {
	Property string         `json:"property"`
	Harness  string         `json:"harness"`
	Params   map[string]int `json:"params"`
	ND       []rec          `json:"nd"`
}

var (
	loaded   bool
	rf       replayFile
	pos      int
	Observed []string
)

// AssumeFailed is the panic payload of a violated assumption during replay.
type AssumeFailed struct{}

// AssertFailed is the panic payload of a violated assertion during replay.
type AssertFailed struct{ Label string }

func load() {
	if loaded {
		return
	}
	loaded = true
	p := os.Getenv("VERIF_REPLAY")
	if p == "" {
		panic("nd: VERIF_REPLAY not set")
	}
	data, err := os.ReadFile(p)
	if err != nil {
		panic("nd: " + err.Error())
	}
	if err := json.Unmarshal(data, &rf); err != nil {
		panic("nd: " + err.Error())
	}
}

func next(kind string) uint64 {
	load()
	// scheduler-level records are not consumed by data requests
	for pos < len(rf.ND) && (rf.ND[pos].Kind == "sched" || rf.ND[pos].Kind == "select" || rf.ND[pos].Kind == "pool") && kind != rf.ND[pos].Kind {
		pos++
	}
	if pos >= len(rf.ND) {
		// values beyond the recorded prefix are unconstrained by the counterexample
		return 0
	}
	r := rf.ND[pos]
	pos++
	return r.Value
}

func Byte() byte     { return byte(next("byte")) }
func Uint16() uint16 { return uint16(next("u16")) }
func Uint32() uint32 { return uint32(next("u32")) }
func Uint64() uint64 { return next("u64") }
func Int() int       { return int(next("int")) }
func Bool() bool     { return next("bool") != 0 }

// Float64 returns an arbitrary float64 (any bit pattern).
func Float64() float64 { return math.Float64frombits(next("f64")) }

func Bytes(n int) []byte {
	b := make([]byte, n)
	for i := range b {
		b[i] = Byte()
	}
	return b
}

// Choice returns an arbitrary integer in [0,n); the executor forks on it.
func Choice(n int) int {
	if n <= 1 {
		return 0 // the executor records nothing for a choice among one
	}
	return int(next("choice"))
}

// Param returns a concrete bound supplied by the check driver for this shape.
func Param(name string) int {
	load()
	v, ok := rf.Params[name]
	if !ok {
		panic("nd: no parameter " + name)
	}
	return v
}

func Assume(c bool) {
	if !c {
		panic(AssumeFailed{})
	}
}

func Assert(c bool, label string) {
	if !c {
		panic(AssertFailed{label})
	}
}

// Known marks the inputs of a recorded finding (see DESIGN 6.4); a no-op natively.
func Known(id string, c bool) {}

func Observe(label string, v interface{}) {
	Observed = append(Observed, fmt.Sprintf("%s=%v", label, v))
}

func Yield()             {}

// Quiesce waits until every other goroutine has finished or is blocked for good (a no-op natively).
func Quiesce() {}
func SchedExplore(n int) {}
func SchedExploreFine(n int) {}
func RaceDetect()        {}

// And, Or, Not: boolean connectives that do not short-circuit (no path split under the executor).
func And(a, b bool) bool { return a && b }
func Or(a, b bool) bool  { return a || b }
func Not(a bool) bool    { return !a }

// Ite*: value-level conditionals (no path split under the executor).
func IteInt(c bool, a, b int) int {
	if c {
		return a
	}
	return b
}
func IteU8(c bool, a, b uint8) uint8 {
	if c {
		return a
	}
	return b
}
func IteU32(c bool, a, b uint32) uint32 {
	if c {
		return a
	}
	return b
}
func IteBool(c bool, a, b bool) bool {
	if c {
		return a
	}
	return b
}

// Symbolic reports whether the code runs under the symbolic executor.
func Symbolic() bool { return false }

// Run executes a harness natively and prints the replay verdict line.
func Run(f func()) (verdict string) {
	defer func() {
		if p := recover(); p != nil {
			switch p := p.(type) {
			case AssertFailed:
				verdict = "violated kind=assert label=" + p.Label
			case AssumeFailed:
				verdict = "assume-failed"
			default:
				verdict = fmt.Sprintf("violated kind=panic label=panic msg=%v", p)
			}
		}
		fmt.Println("VERIF-REPLAY: " + verdict)
	}()
	f()
	return "ok"
}

// HangBound: under the executor, a loop of the code under test that makes more than n iterations
// in one activation is a violation (kind=hang) from here on. Natively the test timeout plays
// that role.
func HangBound(n int) {}

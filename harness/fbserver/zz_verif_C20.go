package fbserver

// C20 — transport and plugin chain do not alter answers.
//
// The real Server.Start assembles the per-listener handler chains (max-answer, ANY refusal,
// whoami) with the socket layer substituted: initUDPServer/initTCPServer return a dns.Server
// holding the handler they were given, ActivateAndServe does nothing. The captured handlers
// are then driven with queries on UDP and TCP writers and compared with the bare database
// handler under the same max-answer setting.

import (
	"context"
	"net"
	"strings"

	"github.com/facebookincubator/dns/dnsrocks/dnsserver"
	"github.com/facebookincubator/dns/dnsrocks/dnsserver/stats"
	"github.com/facebookincubator/dns/dnsrocks/metrics"
	"github.com/facebookincubator/dns/dnsrocks/zzverif/nd"
	"github.com/miekg/dns"
)

//verif:include ../dnsdata/rdb/zz_verif_model.go
//verif:include ../db/zz_verif_world.go
//verif:harness H20_chain property=C20 native=no quick=layout=2,whoami=1,any=1,maxans=2,ips=1;layout=0,whoami=0,any=0,maxans=1,ips=1;layout=1,whoami=0,any=0,maxans=2,ips=1;layout=2,whoami=0,any=0,maxans=1,ips=2 thorough=layout=1,whoami=1,any=0,maxans=3,ips=1;layout=2,whoami=0,any=1,maxans=1,ips=1;layout=0,whoami=1,any=1,maxans=2,ips=1
//verif:subst H20_chain github.com/facebookincubator/dns/dnsrocks/dnsserver.typeToStatsKey github.com/facebookincubator/dns/dnsrocks/dnsserver.VerifStatsKeyStub
//verif:subst H20_chain (*github.com/facebookincubator/dns/dnsrocks/fbserver.Server).initUDPServer github.com/facebookincubator/dns/dnsrocks/fbserver.verifInitUDP
//verif:subst H20_chain (*github.com/facebookincubator/dns/dnsrocks/fbserver.Server).initTCPServer github.com/facebookincubator/dns/dnsrocks/fbserver.verifInitTCP
//verif:subst H20_chain (*github.com/miekg/dns.Server).ActivateAndServe github.com/facebookincubator/dns/dnsrocks/fbserver.verifActivate

func verifInitUDP(srv *Server, addr string, h dns.Handler) (*dns.Server, error) {
	return &dns.Server{Addr: addr, Net: "udp", Handler: h}, nil
}

func verifInitTCP(srv *Server, addr string, h dns.Handler, s *metrics.Stats) (*dns.Server, error) {
	return &dns.Server{Addr: addr, Net: "tcp", Handler: h}, nil
}

func verifActivate(s *dns.Server) error { return nil }

type verifExporter struct{}

func (verifExporter) ConsumeStats(category string, stats *metrics.Stats) error { return nil }

var verifC20Names = []string{"c.z.", "big.z.", "w.z.", "q.z.", "d.z.", "y.", "whoami.test.", "WhoAmI.Test.", "C.z.", "AbCdEf.TeSt."} // the last one is as long as the whoami domain

func H20_chain() {
	layout := nd.Param("layout")
	maxans0 := nd.Param("maxans")
	tdb := dnsserver.VerifHandlerOver(dnsserver.VerifBigWorld(), layout)
	conf := ServerConfig{IPAns: ipAns{"192.0.2.53": maxans0}, Port: 53, TCP: true, RefuseANY: nd.Param("any") == 1}
	if nd.Param("ips") == 2 {
		// a second listening address with its own (larger) max-answer setting
		conf.IPAns["192.0.2.54"] = maxans0 + 2
	}
	if nd.Param("whoami") == 1 {
		conf.WhoamiDomain = "whoami.test"
	}
	srv := &Server{conf: conf, db: tdb, stats: &stats.DummyStats{}, metricsExporter: verifExporter{}}
	nd.Assert(srv.Start() == nil, "start-ok")
	nd.Assert(len(srv.servers) == 2*nd.Param("ips"), "one-udp-and-one-tcp-listener-per-address")

	name := verifC20Names[nd.Choice(len(verifC20Names))]
	// any query type and class, any id and RD/CD bits (solver-chosen)
	qtype, qclass, id := nd.Uint16(), nd.Uint16(), nd.Uint16()
	rd, cd := nd.Bool(), nd.Bool()
	withQuestion := nd.Choice(8) != 0
	build := func() *dns.Msg {
		m := new(dns.Msg)
		m.Id = id
		m.RecursionDesired = rd
		m.CheckingDisabled = cd
		if withQuestion {
			m.Question = []dns.Question{{Name: name, Qtype: qtype, Qclass: qclass}}
		}
		return m
	}
	edns := nd.Bool()
	// the client's UDP buffer size is solver-chosen (512 .. 4096): whether an answer has to be
	// truncated is a solver decision
	udpSize := nd.Uint16()
	nd.Assume(udpSize >= 512)
	nd.Assume(udpSize <= 4096)
	addOPT := func(m *dns.Msg) {
		if edns {
			m.Extra = append(m.Extra, &dns.OPT{Hdr: dns.RR_Header{Name: ".", Rrtype: dns.TypeOPT, Class: udpSize}})
		}
	}
	remote := net.IPv4(12, 0, 0, 1)
	var udpResp, tcpResp *dns.Msg
	for _, s := range srv.servers {
		tcp := s.Net == "tcp"
		// this listener's own max-answer setting
		maxans := maxans0
		if strings.HasPrefix(s.Addr, "192.0.2.54") {
			maxans = maxans0 + 2
		}
		q := build()
		addOPT(q)
		w := dnsserver.VerifNewWriter(tcp, remote)
		s.Handler.ServeDNS(w, q)
		if !withQuestion {
			nd.Assert(len(w.Written()) == 1 && w.Written()[0].Rcode == dns.RcodeServerFailure, "no-question-gets-a-failure-reply")
			continue
		}
		nd.Assert(len(w.Written()) == 1, "one-reply")
		resp := w.Written()[0]
		dnsserver.VerifWellFormed(q, resp, tcp, "chain-reply")
		if tcp {
			tcpResp = resp
		} else {
			udpResp = resp
		}
		isWhoami := conf.WhoamiDomain != "" && (name == "whoami.test." || name == "WhoAmI.Test.")
		switch {
		case conf.RefuseANY && qtype == dns.TypeANY:
			nd.Assert(len(resp.Answer) == 1 && len(resp.Ns) == 0, "any-refused-with-one-record")
			h, ok := resp.Answer[0].(*dns.HINFO)
			nd.Assert(ok && h.Cpu == "RFC 8482" && h.Os == "", "any-gets-synthesized-hinfo")
		case isWhoami:
			if qtype == dns.TypeTXT {
				nd.Assert(len(resp.Answer) >= 3, "whoami-txt-set")
				for _, rr := range resp.Answer {
					_, ok := rr.(*dns.TXT)
					nd.Assert(ok, "whoami-answers-are-txt")
				}
			}
		default:
			// the bare handler with this listener's max-answer setting
			q2 := build()
			addOPT(q2)
			w2 := dnsserver.VerifNewWriter(tcp, remote)
			_, _ = tdb.ServeDNS(dnsserver.WithMaxAnswer(context.Background(), maxans), w2, q2)
			nd.Assert(len(w2.Written()) == 1, "bare-one-reply")
			bare := w2.Written()[0]
			if name == "w.z." && (qtype == dns.TypeA || qtype == dns.TypeANY) {
				// weighted selection: the random choice differs between two calls, the count does not
				want := 3
				if maxans < want {
					want = maxans
				}
				nA := 0
				for _, rr := range resp.Answer {
					if _, ok := rr.(*dns.A); ok {
						nA++
					}
				}
				nd.Assert(nA == want && len(resp.Answer) == len(bare.Answer), "max-answer-of-the-listener-applies")
			} else {
				dnsserver.VerifSameResponse(resp, bare, "chain-vs-bare")
			}
		}
	}
	if withQuestion && udpResp != nil && tcpResp != nil && nd.Param("ips") == 1 {
		if udpResp.Truncated {
			nd.Assert(!tcpResp.Truncated, "complete-over-tcp")
			nd.Assert(len(tcpResp.Answer) >= len(udpResp.Answer), "tcp-has-at-least-the-udp-answers")
		}
		if name == "big.z." && qtype == dns.TypeTXT {
			nd.Assert(len(tcpResp.Answer) == 3, "tcp-carries-all-records")
		}
		// truncated exactly when the complete response (the one sent over TCP) does not fit
		// (sizes are compared in the compressed form, which is what is sent over UDP)
		complete := tcpResp.Copy()
		complete.Compress = true
		full, err := complete.Pack()
		nd.Assert(err == nil, "tcp-response-packs")
		limit := 512
		if edns {
			limit = int(udpSize)
		}
		nd.Assert(udpResp.Truncated == (len(full) > limit), "udp-truncated-iff-the-complete-response-exceeds-the-buffer")
	}
}

package metrics

// C19 (concurrency part) — counters equal the sum of their increments regardless of
// concurrency. G goroutines apply increments of solver-chosen amounts to two counters of the
// real Stats while an exporter takes a snapshot (Get); the scheduler explores pre-emptions at
// every synchronisation operation with happens-before tracking on.

import (
	"github.com/facebookincubator/dns/dnsrocks/zzverif/nd"
)

//verif:harness H19_conc property=C19 native=no quick=g=2,ops=1,pre=1;g=2,ops=2,pre=1 thorough=g=2,ops=1,pre=2;g=3,ops=1,pre=1

func H19_conc() {
	g, ops := nd.Param("g"), nd.Param("ops")
	s := NewStats()
	// initial values: one counter preset, the other absent until first use
	base := int64(nd.Uint32())
	s.ResetCounterTo("a", base)
	amounts := make([][]int64, g)
	keys := make([][]bool, g)
	var wantA, wantB int64 = base, 0
	for i := 0; i < g; i++ {
		for j := 0; j < ops; j++ {
			amt := int64(nd.Uint16())
			onA := nd.Bool()
			amounts[i] = append(amounts[i], amt)
			keys[i] = append(keys[i], onA)
			if onA {
				wantA += amt
			} else {
				wantB += amt + 1 // the second increment of each op on "b" is IncrementCounter (by one)
			}
		}
	}
	nd.RaceDetect()
	nd.SchedExploreFine(nd.Param("pre"))
	done := make(chan struct{}, g+1)
	for i := 0; i < g; i++ {
		i := i
		go func() {
			for j := 0; j < ops; j++ {
				if keys[i][j] {
					s.IncrementCounterBy("a", amounts[i][j])
				} else {
					s.IncrementCounterBy("b", amounts[i][j])
					s.IncrementCounter("b")
				}
			}
			done <- struct{}{}
		}()
	}
	var mid map[string]int64
	go func() { // exporter: a snapshot taken at any moment lies between the initial and the final values
		mid = s.Get()
		done <- struct{}{}
	}()
	for i := 0; i < g+1; i++ {
		<-done
	}
	fin := s.Get()
	nd.Assert(fin["a"] == wantA, "counter-a-is-the-sum-of-its-increments")
	nd.Assert(fin["b"] == wantB, "counter-b-is-the-sum-of-its-increments")
	nd.Assert(mid["a"] >= base && mid["a"] <= wantA, "snapshot-a-between-initial-and-final")
	nd.Assert(mid["b"] >= 0 && mid["b"] <= wantB, "snapshot-b-between-initial-and-final")
}

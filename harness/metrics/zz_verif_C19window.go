package metrics

// C19 (window part) — min/max/avg are computed from exactly the samples added within the
// last window length. The real cleaner() loop runs in its own goroutine and is driven by a
// stub ticker; time.Now is a stub clock (whole seconds, arbitrary non-decreasing readings).

import (
	"time"

	"github.com/facebookincubator/dns/dnsrocks/zzverif/nd"
)

//verif:harness H19_window property=C19 native=no quick=k=1,t=1;k=2,t=1;k=2,t=2;k=3,t=1 thorough=k=2,t=2;k=3,t=1
//verif:subst H19_window time.Now github.com/facebookincubator/dns/dnsrocks/metrics.verifNow
//verif:subst H19_window time.NewTicker github.com/facebookincubator/dns/dnsrocks/metrics.verifNewTicker

var (
	verifClockSec int64
	verifTickCh   chan time.Time
)

func verifNow() time.Time { return time.Unix(verifClockSec, 0) }

func verifNewTicker(d time.Duration) *time.Ticker {
	return &time.Ticker{C: verifTickCh}
}

type verifSample struct {
	v      int64
	expiry int64 // second at which it expires (added + lifetime)
}

const verifLifetimeSec = 60

func verifAdvance() {
	d := int64(nd.Uint16()) // 0..65535 seconds
	verifClockSec += d
}

// verifExpected returns the samples not yet expired at time now (expires.Before(now) drops).
func verifExpected(added []verifSample, now int64) []int64 {
	out := []int64{}
	for _, s := range added {
		if !(s.expiry < now) {
			out = append(out, s.v)
		}
	}
	return out
}

func verifCheckWindow(w *slidingWindow, st *Stats, added []verifSample, lastTick int64, tag string) {
	want := verifExpected(added, lastTick)
	got := w.Samples()
	nd.Assert(len(got) == len(want), tag+":retained-count")
	for i := range got {
		nd.Assert(got[i] == want[i], tag+":retained-values-in-order")
	}
	m := st.Get()
	if len(want) == 0 {
		nd.Assert(m["w.min"] == 0 && m["w.max"] == 0 && m["w.avg"] == 0, tag+":empty-window-exports-zero")
		return
	}
	mn, mx, sum := want[0], want[0], int64(0)
	for _, v := range want {
		if v < mn {
			mn = v
		}
		if v > mx {
			mx = v
		}
		sum += v
	}
	nd.Assert(m["w.min"] == mn, tag+":min")
	nd.Assert(m["w.max"] == mx, tag+":max")
	nd.Assert(m["w.avg"] == sum/int64(len(want)), tag+":avg")
}

// H19_window: k adds and t ticks in an order chosen by the solver, arbitrary clock advances.
func H19_window() {
	k, t := nd.Param("k"), nd.Param("t")
	verifClockSec = 1_000_000
	verifTickCh = make(chan time.Time)
	w, err := newWindow(verifLifetimeSec * time.Second)
	nd.Assert(err == nil, "new-window")
	st := NewStats()
	st.windows["w"] = w
	go w.cleaner()

	var added []verifSample
	na, nt := 0, 0
	ticked := false
	lastTick := int64(0)
	for na < k || nt < t {
		verifAdvance()
		doTick := nt < t && (na >= k || nd.Bool())
		if doTick {
			nt++
			verifTickCh <- verifNow() // returns when the cleaner has taken the tick
			w.mutex.Lock()            // the cleaner holds the lock while it works
			w.mutex.Unlock()
			lastTick = verifClockSec
			ticked = true
			verifCheckWindow(w, st, added, lastTick, "after-tick")
		} else {
			na++
			v := int64(int16(nd.Uint16()))
			w.Add(v)
			added = append(added, verifSample{v, verifClockSec + verifLifetimeSec})
			// between ticks nothing is dropped: everything retained at the last tick plus the new ones
			if !ticked {
				verifCheckWindow(w, st, added, 0, "before-first-tick")
			}
		}
	}
	w.stopping <- struct{}{}
}

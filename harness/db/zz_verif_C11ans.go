package db

// C11 (answer part) — an address with weight 0 is never served while the response still reports
// that the name exists; exactly min(maximum, number of positive-weight candidates) addresses are
// served. The real FindAnswer of the layout's reader runs over a store compiled by the real
// encoders; the candidates' weights are solver-chosen; a wildcard address exists in the zone so
// that "name does not exist" would show as the wildcard's address.

import (
	"net"

	"github.com/facebookincubator/dns/dnsrocks/dnsdata"
	"github.com/facebookincubator/dns/dnsrocks/zzverif/nd"
	"github.com/miekg/dns"
)

//verif:include ../dnsdata/rdb/zz_verif_model.go
//verif:include zz_verif_world.go
//verif:harness H11_answer property=C11 native=no solver=cvc5 quick=layout=2,n=1,max=1;layout=0,n=2,max=1 thorough=layout=1,n=2,max=2;layout=2,n=3,max=2
//verif:subst H11_answer (*math/rand.Rand).Uint32 github.com/facebookincubator/dns/dnsrocks/db.verifRandUint32
//verif:subst H11_answer (*math/rand.Rand).Shuffle github.com/facebookincubator/dns/dnsrocks/db.verifRandShuffle
//verif:subst H11_answer math.Pow github.com/facebookincubator/dns/dnsrocks/db.verifPow

func H11_answer() {
	layout, n, max := nd.Param("layout"), nd.Param("n"), nd.Param("max")
	verifDraws, verifPowCalls = nil, nil
	recs := []dnsdata.VerifRec{
		{Kind: 'Z', Dom: []byte("z"), TTL: 300, Target: []byte("ns.z")},
		{Kind: '&', Dom: []byte("z"), TTL: 300, Target: []byte("ns.z")},
		{Kind: '+', Dom: []byte("z"), Wild: true, TTL: 60, IP: []byte{192, 0, 2, 99}, Weight: 1},
	}
	weights := make([]uint32, n)
	for i := 0; i < n; i++ {
		weights[i] = nd.Uint32()
		recs = append(recs, dnsdata.VerifRec{Kind: '+', Dom: []byte("w.z"), TTL: 60, IP: []byte{192, 0, 2, byte(10 + i)}, Weight: weights[i]})
	}
	dbi, err := VerifBuildStore(recs, layout)
	nd.Assert(err == nil, "store-built")
	r, err := NewReader(VerifNewDB(dbi))
	nd.Assert(err == nil, "reader")
	defer r.Close()

	a := new(dns.Msg)
	_, found := r.FindAnswer([]byte("\x01w\x01z\x00"), []byte("\x01z\x00"), "w.z.", dns.TypeA, &Location{}, a, max)
	nd.Assert(found, "name-with-only-zero-weight-addresses-still-exists")
	positive := 0
	for _, w := range weights {
		if w > 0 {
			positive++
		}
	}
	want := positive
	if want > max {
		want = max
	}
	nd.Assert(len(a.Answer) == want, "exactly-min-of-max-and-positive-candidates")
	for _, rr := range a.Answer {
		ip := rr.(*dns.A).A
		ok := false
		for i := range weights {
			if ip.Equal(net.IPv4(192, 0, 2, byte(10+i))) {
				ok = true
				nd.Assert(weights[i] > 0, "weight-zero-address-never-served")
			}
		}
		nd.Assert(ok, "served-address-is-declared-for-the-name")
	}
}

package db

// C11 (additional section part) — addresses added for NS/MX targets follow the selection rule
// with a maximum of one per family: for every target named by the given records the additional
// section gets at most one A and one AAAA, each a declared positive-weight address of that
// target, none when every candidate has weight 0, and none twice — also when several records
// name the same target.
//
// The store is compiled by the real encoders in the chosen layout; the target's addresses have
// solver-chosen weights; the real AdditionalSectionForRecords runs over a real reader.

import (
	"net"

	"github.com/facebookincubator/dns/dnsrocks/dnsdata"
	"github.com/facebookincubator/dns/dnsrocks/zzverif/nd"
	"github.com/miekg/dns"
)

//verif:include ../dnsdata/rdb/zz_verif_model.go
//verif:include zz_verif_world.go
//verif:harness H11_additional property=C11 native=no solver=cvc5 quick=layout=2,n4=2,n6=0,refs=2;layout=0,n4=1,n6=1,refs=2 thorough=layout=1,n4=2,n6=1,refs=3;layout=2,n4=3,n6=0,refs=2
//verif:subst H11_additional (*math/rand.Rand).Uint32 github.com/facebookincubator/dns/dnsrocks/db.verifRandUint32
//verif:subst H11_additional (*math/rand.Rand).Shuffle github.com/facebookincubator/dns/dnsrocks/db.verifRandShuffle
//verif:subst H11_additional math.Pow github.com/facebookincubator/dns/dnsrocks/db.verifPow

func H11_additional() {
	layout, n4, n6, refs := nd.Param("layout"), nd.Param("n4"), nd.Param("n6"), nd.Param("refs")
	verifDraws, verifPowCalls = nil, nil
	recs := []dnsdata.VerifRec{
		{Kind: 'Z', Dom: []byte("z"), TTL: 300, Target: []byte("ns.z")},
		{Kind: '&', Dom: []byte("z"), TTL: 300, Target: []byte("ns.z")},
	}
	type cand struct {
		ip     []byte
		weight uint32
	}
	var c4, c6 []cand
	for i := 0; i < n4; i++ {
		c := cand{ip: []byte{192, 0, 2, byte(10 + i)}, weight: nd.Uint32()}
		c4 = append(c4, c)
		recs = append(recs, dnsdata.VerifRec{Kind: '+', Dom: []byte("mx.z"), TTL: 60, IP: c.ip, Weight: c.weight})
	}
	for i := 0; i < n6; i++ {
		ip := make([]byte, 16)
		ip[0], ip[1], ip[15] = 0x20, 0x01, byte(1+i)
		c := cand{ip: ip, weight: nd.Uint32()}
		c6 = append(c6, c)
		recs = append(recs, dnsdata.VerifRec{Kind: '+', Dom: []byte("mx.z"), TTL: 60, IP: c.ip, Weight: c.weight})
	}
	dbi, err := VerifBuildStore(recs, layout)
	nd.Assert(err == nil, "store-built")
	r, err := NewReader(VerifNewDB(dbi))
	nd.Assert(err == nil, "reader")
	defer r.Close()

	// the records whose targets get additional addresses: refs references to the same host
	// (two MX of one name, an NS naming the same host)
	var rrs []dns.RR
	for i := 0; i < refs; i++ {
		if i == 2 {
			rrs = append(rrs, &dns.NS{Hdr: dns.RR_Header{Name: "z.", Rrtype: dns.TypeNS, Class: dns.ClassINET}, Ns: "mx.z."})
		} else {
			rrs = append(rrs, &dns.MX{Hdr: dns.RR_Header{Name: "m.z.", Rrtype: dns.TypeMX, Class: dns.ClassINET}, Preference: uint16(10 * (i + 1)), Mx: "mx.z."})
		}
	}
	a := new(dns.Msg)
	loc := &Location{}
	AdditionalSectionForRecords(r, a, loc, dns.ClassINET, rrs)

	count := func(cs []cand, v6 bool) {
		positive := 0
		for _, c := range cs {
			if c.weight > 0 {
				positive++
			}
		}
		n := 0
		for _, rr := range a.Extra {
			var ip net.IP
			switch x := rr.(type) {
			case *dns.A:
				if v6 {
					continue
				}
				ip = x.A
			case *dns.AAAA:
				if !v6 {
					continue
				}
				ip = x.AAAA
			default:
				nd.Assert(false, "only-addresses-in-additional")
			}
			nd.Assert(rr.Header().Name == "mx.z.", "additional-owner-is-the-target")
			n++
			found := false
			for _, c := range cs {
				if net.IP(c.ip).Equal(ip) {
					found = true
					nd.Assert(c.weight > 0, "weight-zero-address-never-served")
				}
			}
			nd.Assert(found, "served-address-is-declared-for-the-target")
		}
		want := 0
		if positive > 0 {
			want = 1
		}
		nd.Assert(n <= 1, "at-most-one-address-per-family-and-target")
		nd.Assert(n == want, "one-address-per-family-iff-a-positive-weight-candidate-exists")
	}
	count(c4, false)
	count(c6, true)
}

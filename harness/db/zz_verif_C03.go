package db

// C03 — client-to-location mapping is longest-prefix match over the declared subnets.
//
// N symbolic subnets of one map go through the real compiler pieces (Accum.update,
// Rearranger.AddLocation/Rearrange, Rrangepoint/Rnet MarshalMap, prefix sets) into a model
// store; the real driver look-up answers a symbolic client; the result must equal the
// longest-prefix-match oracle.

import (
	"net"

	"github.com/facebookincubator/dns/dnsrocks/dnsdata"
	"github.com/facebookincubator/dns/dnsrocks/dnsdata/rdb"
	"github.com/facebookincubator/dns/dnsrocks/zzverif/nd"
)

//verif:include ../dnsdata/rdb/zz_verif_model.go
//verif:include zz_verif_world.go
//verif:harness H03_rdb property=C03 native=no quick=n=1,f0=4,cf=46,trunc=0,vsym=2,rel=0;n=1,f0=4,cf=4,trunc=1,vsym=2,rel=0;n=1,f0=4,cf=4,trunc=0,vsym=2,rel=0;n=1,f0=6,cf=6,trunc=1,vsym=2,rel=0;n=1,f0=6,cf=4,trunc=1,vsym=2,rel=0;n=1,f0=4,cf=6,trunc=1,vsym=2,rel=0;n=2,f0=4,f1=4,cf=4,trunc=1,vsym=2,rel=2 thorough=n=2,f0=4,f1=4,cf=4,trunc=1,vsym=2,rel=1;n=1,f0=6,cf=6,trunc=0,vsym=16,rel=0
//verif:harness H03_cdb property=C03 native=no quick=n=2,f0=4,f1=6,cf=6,trunc=1,sep=1,vsym=2,rel=3;n=1,f0=6,cf=46,trunc=1,sep=1,vsym=2,rel=0;n=1,f0=4,cf=4,trunc=1,sep=0,vsym=2,rel=0;n=1,f0=4,cf=4,trunc=0,sep=0,vsym=2,rel=0;n=1,f0=6,cf=4,trunc=1,sep=0,vsym=2,rel=0;n=1,f0=6,cf=4,trunc=1,sep=1,vsym=2,rel=0 thorough=n=1,f0=4,cf=46,trunc=0,sep=0,vsym=2,rel=0;n=1,f0=6,cf=6,trunc=1,sep=0,vsym=2,rel=0;n=2,f0=6,f1=4,cf=4,trunc=1,sep=1,vsym=2,rel=3

var verifV4Prefix = [12]byte{0, 0, 0, 0, 0, 0, 0, 0, 0, 0, 0xff, 0xff}

// verifMaskByte is byte i of the 128-bit netmask with `ones` leading ones (no path split).
func verifMaskByte(ones, i int) uint8 {
	rem := ones - 8*i
	part := ^uint8(0xff >> uint(rem&7))
	return nd.IteU8(rem >= 8, 0xff, nd.IteU8(rem <= 0, 0, part))
}

type verifSub struct {
	ip   [16]byte
	ones int
	loc  [2]byte
	v4   bool
}

// verifSymbolicSubnet: family 4 = IPv4 CIDR a.b.c.d/n stored as ::ffff:a.b.c.d/(96+n);
// family 6 = IPv6 CIDR that does not contain the IPv4-mapped block unless it is ::/0.
func verifSymbolicSubnet(fam int) verifSub {
	var s verifSub
	s.v4 = fam == 4
	raw := nd.Bytes(16)
	if s.v4 {
		n := int(nd.Byte())
		nd.Assume(n <= 32)
		s.ones = 96 + n
		copy(raw[:12], verifV4Prefix[:])
	} else {
		s.ones = int(nd.Byte())
		nd.Assume(s.ones <= 128)
		// bound: only the first vsym bytes of IPv6 addresses are symbolic, the rest is 0
		for i := nd.Param("vsym"); i < 16; i++ {
			raw[i] = 0
		}
	}
	for i := 0; i < 16; i++ {
		s.ip[i] = raw[i] & verifMaskByte(s.ones, i) // declared in network form (ParseCIDR masks)
	}
	if !s.v4 {
		// validity: an IPv6 subnet other than ::/0 does not contain ::ffff:0:0/96
		contains := s.ones <= 96
		for i := 0; i < 12; i++ {
			contains = nd.And(contains, verifV4Prefix[i]&verifMaskByte(s.ones, i) == s.ip[i])
		}
		nd.Assume(nd.Or(s.ones == 0, !contains))
		// ... and is not inside it either (that would be an IPv4 subnet written in IPv6 notation)
		inside := s.ones >= 96
		for i := 0; i < 12; i++ {
			inside = nd.And(inside, s.ip[i] == verifV4Prefix[i])
		}
		nd.Assume(!inside)
	}
	s.loc[0], s.loc[1] = nd.Byte(), nd.Byte()
	nd.Assume(s.loc[0] != 0 || s.loc[1] != 0)
	return s
}

type verifClient struct {
	ip    [16]byte
	v4    bool
	ones  int // in the 128-bit scale
	ipnet *net.IPNet
}

func verifSymbolicClient(fam int, truncated bool) verifClient {
	var c verifClient
	c.v4 = fam == 4 || fam == 46
	raw := nd.Bytes(16)
	p := int(nd.Byte())
	bits := 128
	if fam == 46 {
		// an IPv4 client written in IPv6 form (a family-2 client-subnet option carrying
		// ::ffff:a.b.c.d): the prefix length already counts 128 bits
		nd.Assume(p >= 96 && p <= 128)
		c.ones = p
		copy(raw[:12], verifV4Prefix[:])
	} else if c.v4 {
		nd.Assume(p <= 32)
		bits = 32
		c.ones = 96 + p
		copy(raw[:12], verifV4Prefix[:])
	} else {
		nd.Assume(p <= 128)
		c.ones = p
		for i := nd.Param("vsym"); i < 16; i++ {
			raw[i] = 0
		}
		// a family-2 address is not IPv4-mapped
		mapped := true
		for i := 0; i < 12; i++ {
			mapped = nd.And(mapped, raw[i] == verifV4Prefix[i])
		}
		nd.Assume(!mapped)
	}
	for i := 0; i < 16; i++ {
		c.ip[i] = raw[i]
		if truncated {
			nd.Assume(raw[i]&^verifMaskByte(c.ones, i) == 0) // RFC 7871: bits beyond the prefix are 0
		}
	}
	ip := make(net.IP, 16)
	copy(ip, c.ip[:])
	c.ipnet = &net.IPNet{IP: ip, Mask: net.CIDRMask(p, bits)}
	return c
}

// verifLPM is the oracle: the longest same-family subnet no longer than the client's prefix
// that contains the client network. Returns ones = -1 when there is none.
func verifLPM(subs []verifSub, c verifClient) (ones int, l0, l1 uint8) {
	ones = -1
	for _, s := range subs {
		if s.v4 != c.v4 {
			continue
		}
		cand := s.ones <= c.ones
		for i := 0; i < 16; i++ {
			// the client network is the address masked to the client's own prefix
			cb := c.ip[i] & verifMaskByte(c.ones, i)
			cand = nd.And(cand, cb&verifMaskByte(s.ones, i) == s.ip[i])
		}
		better := nd.And(cand, s.ones > ones)
		ones = nd.IteInt(better, s.ones, ones)
		l0 = nd.IteU8(better, s.loc[0], l0)
		l1 = nd.IteU8(better, s.loc[1], l1)
	}
	return
}

func verifSubnets(n int) []verifSub {
	fams := []string{"f0", "f1", "f2"}
	subs := make([]verifSub, n)
	for i := range subs {
		subs[i] = verifSymbolicSubnet(nd.Param(fams[i]))
		for j := 0; j < i; j++ {
			same := subs[i].ones == subs[j].ones
			for b := 0; b < 16; b++ {
				same = nd.And(same, subs[i].ip[b] == subs[j].ip[b])
			}
			nd.Assume(!same) // the same subnet is not declared twice in a map
		}
	}
	// relation between the first two subnets (bound: rel=0 free, 1 nested, 2 same network address)
	if n >= 2 && nd.Param("rel") == 3 {
		// subnets of the two families with the same prefix length on the 128-bit scale
		// (an IPv4 /n and an IPv6 /(96+n)): the per-family prefix-length sets must both hold it
		// bound: that common length is 120 (an IPv4 /24 and an IPv6 /120)
		nd.Assume(subs[0].ones == 120)
		nd.Assume(subs[1].ones == 120)
	}
	if n >= 2 && subs[0].v4 == subs[1].v4 {
		switch nd.Param("rel") {
		case 1:
			nested := subs[1].ones > subs[0].ones
			for b := 0; b < 16; b++ {
				nested = nd.And(nested, subs[1].ip[b]&verifMaskByte(subs[0].ones, b) == subs[0].ip[b])
			}
			nd.Assume(nested)
		case 2:
			sameNet := subs[1].ones > subs[0].ones
			for b := 0; b < 16; b++ {
				sameNet = nd.And(sameNet, subs[1].ip[b] == subs[0].ip[b])
			}
			nd.Assume(sameNet)
		}
	}
	return subs
}

var verifMapID = [2]byte{0, 'm'}

func verifCompile(subs []verifSub, rocks bool) []dnsdata.MapRecord {
	codec := dnsdata.VerifNewCodec(rocks)
	var recs []dnsdata.MapRecord
	for _, s := range subs {
		r, err := dnsdata.VerifAddSubnet(codec, verifMapID, dnsdata.VerifSubnet{IP: s.ip, Ones: s.ones, Loc: s.loc})
		nd.Assert(err == nil, "subnet-accepted")
		recs = append(recs, r...)
	}
	acc, err := dnsdata.VerifAccRecords(codec)
	nd.Assert(err == nil, "accumulator-ok")
	return append(recs, acc...)
}

func verifJudge(subs []verifSub, c verifClient, loc []byte, mlen uint8, err error, tag string) {
	nd.Assert(err == nil, tag+":lookup-ok")
	wantOnes, w0, w1 := verifLPM(subs, c)
	if loc == nil {
		nd.Assert(wantOnes < 0, tag+":no-location-iff-no-subnet-contains-client")
		return
	}
	nd.Assert(wantOnes >= 0, tag+":location-only-if-a-subnet-contains-client")
	nd.Assert(len(loc) == 2 && loc[0] == w0 && loc[1] == w1, tag+":location-of-longest-matching-subnet")
	nd.Assert(int(mlen) == wantOnes, tag+":mask-of-longest-matching-subnet")
}

// H03_rdb: range-point table (RocksDB layout) + rdbdriver.GetLocationByMap.
func H03_rdb() {
	subs := verifSubnets(nd.Param("n"))
	m := rdb.NewVerifDB()
	VerifLoadRocks(m, verifCompile(subs, true))
	drv := VerifNewRdbDriver(m)
	c := verifSymbolicClient(nd.Param("cf"), nd.Param("trunc") == 1)
	loc, mlen, err := drv.GetLocationByMap(c.ipnet, verifMapID[:], rdb.NewContext())
	verifJudge(subs, c, loc, mlen, err, "rdb")
}

// H03_cdb: prefix-length sets + masked keys (CDB layout) + cdbdriver.GetLocationByMap.
func H03_cdb() {
	subs := verifSubnets(nd.Param("n"))
	s := &VerifCdbStore{}
	VerifLoadCdb(s, verifCompile(subs, false))
	drv := VerifNewCdbDriver(s)
	old := SeparateBitMap
	SeparateBitMap = nd.Param("sep") == 1
	defer func() { SeparateBitMap = old }()
	c := verifSymbolicClient(nd.Param("cf"), nd.Param("trunc") == 1)
	ctx := drv.NewContext()
	loc, mlen, err := drv.GetLocationByMap(c.ipnet, verifMapID[:], ctx)
	verifJudge(subs, c, loc, mlen, err, "cdb")
}

package db

// C11 — weighted address selection is bounded, sound and (functionally) proportional.
//
// Real Wrs.Add / ARecord / AAAARecord / WeightedAnswer over m candidates with symbolic weight
// (any uint32, 0 and 2^32-1 included), family, TTL and address bytes; the random stream is
// symbolic; math.Pow is replaced by its documented contract on the domain used.

import (
	"math"
	"net"

	"github.com/facebookincubator/dns/dnsrocks/zzverif/nd"
	"github.com/miekg/dns"
)

//verif:harness H11_variate property=C11 native=no solver=cvc5 quick=m=1;m=2 thorough=m=1;m=2
//verif:subst H11_variate (*math/rand.Rand).Uint32 github.com/facebookincubator/dns/dnsrocks/db.verifRandUint32
//verif:subst H11_variate math.Pow github.com/facebookincubator/dns/dnsrocks/db.verifPowRecord
//verif:harness H11_wrs property=C11 native=no solver=cvc5 quick=m=1,max=1;m=2,max=1;m=2,max=2;m=3,max=2 thorough=m=3,max=1;m=3,max=3
//verif:subst H11_wrs (*math/rand.Rand).Uint32 github.com/facebookincubator/dns/dnsrocks/db.verifRandUint32
//verif:subst H11_wrs (*math/rand.Rand).Shuffle github.com/facebookincubator/dns/dnsrocks/db.verifRandShuffle
//verif:subst H11_wrs math.Pow github.com/facebookincubator/dns/dnsrocks/db.verifPow

type verifPowCall struct{ x, y, r float64 }

var (
	verifDraws    []uint32
	verifPowCalls []verifPowCall
)

func verifRandUint32(_ interface{}) uint32 {
	u := nd.Uint32()
	verifDraws = append(verifDraws, u)
	return u
}

// verifRandShuffle applies an arbitrary permutation (Fisher-Yates with arbitrary picks).
func verifRandShuffle(_ interface{}, n int, swap func(i, j int)) {
	for i := n - 1; i > 0; i-- {
		j := nd.Choice(i + 1)
		swap(i, j)
	}
}

// verifPow: the documented contract of math.Pow for a base strictly inside (0,1) (shown for
// every draw by H11_variate) and an exponent 0 < y <= +Inf: Pow(x,+Inf)=0, otherwise
// 0 < Pow(x,y) < 1.
func verifPow(x, y float64) float64 {
	r := nd.Float64()
	if math.IsInf(y, 1) {
		nd.Assume(r == 0)
	} else {
		nd.Assume(r > 0 && r < 1)
	}
	verifPowCalls = append(verifPowCalls, verifPowCall{x, y, r})
	return r
}

// verifPowRecord only records its arguments (H11_variate judges them).
func verifPowRecord(x, y float64) float64 {
	verifPowCalls = append(verifPowCalls, verifPowCall{x, y, 0.5})
	return 0.5
}

// H11_variate: for every draw the base handed to Pow lies strictly inside (0,1), is a
// monotone function of the draw, and the exponent is exactly 1/weight.
func H11_variate() {
	m := nd.Param("m")
	verifDraws, verifPowCalls = nil, nil
	w := Wrs{MaxAnswers: 1}
	weights := make([]uint32, m)
	for i := 0; i < m; i++ {
		weights[i] = nd.Uint32()
		rec := ResourceRecord{Weight: weights[i], Qtype: dns.TypeA, TTL: 1, Offset: 0}
		nd.Assert(w.Add(rec, []byte{1, 2, 3, 4}) == nil, "add-ok")
	}
	nd.Assert(len(verifPowCalls) == m && len(verifDraws) == m, "one-draw-one-key-per-candidate")
	for i := 0; i < m; i++ {
		x := verifPowCalls[i].x
		nd.Assert(x > 0 && x < 1, "variate-strictly-inside-unit-interval")
		nd.Assert(verifPowCalls[i].y == 1.0/float64(weights[i]), "key-exponent-is-inverse-weight")
		nd.Assert(math.IsInf(verifPowCalls[i].y, 1) == (weights[i] == 0), "exponent-infinite-iff-weight-zero")
		for j := 0; j < i; j++ {
			if verifDraws[j] <= verifDraws[i] {
				nd.Assert(verifPowCalls[j].x <= x, "variate-monotone-in-draw")
			} else {
				nd.Assert(verifPowCalls[j].x >= x, "variate-monotone-in-draw")
			}
		}
	}
}

type verifCand struct {
	weight uint32
	v6     bool
	ttl    uint32
	addr   []byte
}

// H11_wrs: m candidates are offered to a Wrs with MaxAnswers = max.
func H11_wrs() {
	m, max := nd.Param("m"), nd.Param("max")
	verifDraws, verifPowCalls = nil, nil
	w := Wrs{MaxAnswers: max}
	cands := make([]verifCand, m)
	for i := range cands {
		c := verifCand{weight: nd.Uint32(), v6: nd.Bool(), ttl: nd.Uint32()}
		if c.v6 {
			c.addr = nd.Bytes(16)
		} else {
			c.addr = nd.Bytes(4)
		}
		// distinct addresses so that "no repetition" is decidable on the answer
		for j := 0; j < i; j++ {
			if cands[j].v6 == c.v6 {
				nd.Assume(!net.IP(cands[j].addr).Equal(net.IP(c.addr)))
			}
		}
		cands[i] = c
		qt := dns.TypeA
		if c.v6 {
			qt = dns.TypeAAAA
		}
		rec := ResourceRecord{Weight: c.weight, Qtype: qt, TTL: c.ttl, Offset: 0}
		nd.Assert(w.Add(rec, c.addr) == nil, "add-ok")
	}
	nd.Assert(len(verifPowCalls) == m && len(verifDraws) == m, "one-draw-one-key-per-candidate")

	for fam := 0; fam < 2; fam++ {
		v6 := fam == 1
		var rrs []dns.RR
		var err error
		if v6 {
			rrs, err = w.AAAARecord("x.", dns.ClassINET)
		} else {
			rrs, err = w.ARecord("x.", dns.ClassINET)
		}
		nd.Assert(err == nil, "record-ok")
		positive, total := 0, 0
		for _, c := range cands {
			if c.v6 == v6 {
				total++
				if c.weight > 0 {
					positive++
				}
			}
		}
		want := positive
		if want > max {
			want = max
		}
		nd.Assert(len(rrs) <= max, "at-most-max-answers")
		nd.Assert(len(rrs) == want, "exactly-min-of-max-and-positive-candidates")
		served := make([]int, 0, len(rrs))
		for _, rr := range rrs {
			var ip net.IP
			if v6 {
				ip = rr.(*dns.AAAA).AAAA
			} else {
				ip = rr.(*dns.A).A
			}
			idx := -1
			for i, c := range cands {
				if c.v6 == v6 && net.IP(c.addr).Equal(ip) {
					idx = i
				}
			}
			nd.Assert(idx >= 0, "served-address-is-a-declared-candidate")
			nd.Assert(rr.Header().Ttl == cands[idx].ttl, "served-ttl-is-the-candidates")
			nd.Assert(cands[idx].weight > 0, "weight-zero-never-served")
			for _, s := range served {
				nd.Assert(s != idx, "no-repetition")
			}
			served = append(served, idx)
		}
		// the served set holds the largest keys
		for i, c := range cands {
			if c.v6 != v6 {
				continue
			}
			isServed := false
			for _, s := range served {
				isServed = isServed || s == i
			}
			if !isServed && c.weight > 0 {
				for _, s := range served {
					nd.Assert(verifPowCalls[s].r >= verifPowCalls[i].r, "served-keys-are-the-largest")
				}
			}
		}
		if v6 {
			nd.Assert(w.V6Count == uint32(total), "v6-count")
		} else {
			nd.Assert(w.V4Count == uint32(total), "v4-count")
		}
	}
	n4, n6 := 0, 0
	for _, c := range cands {
		if c.v6 {
			n6++
		} else {
			n4++
		}
	}
	nd.Assert(w.WeightedAnswer() == (n4 > 1 || n6 > 1), "weighted-flag")
}

package db

// Shared store models and constructors for the db-package harnesses.

import (
	"bytes"
	"io"

	"github.com/facebookincubator/dns/dnsrocks/dnsdata"
	"github.com/facebookincubator/dns/dnsrocks/dnsdata/rdb"
	cdb "github.com/repustate/go-cdb"
)

//verif:subst * (*github.com/repustate/go-cdb.Cdb).FindStart github.com/facebookincubator/dns/dnsrocks/db.VerifCdbFindStart
//verif:subst * (*github.com/repustate/go-cdb.Cdb).FindNext github.com/facebookincubator/dns/dnsrocks/db.VerifCdbFindNext
//verif:subst * (*github.com/repustate/go-cdb.Cdb).Close github.com/facebookincubator/dns/dnsrocks/db.VerifCdbClose

// VerifCdbStore models a CDB file by contract: exact-match multi-value store, values of a
// key returned in insertion order, then io.EOF (this contract is what C16 decides for the
// real file format).
type VerifCdbStore struct {
	Keys   [][]byte
	Vals   [][]byte
	Closed bool
	Closes int
	Uses   int
	UseAfterClose int
}

var (
	verifCdbStores = map[*cdb.Cdb]*VerifCdbStore{}
	verifCdbPos    = map[*cdb.Context]*int{}
)

func (s *VerifCdbStore) Add(k, v []byte) {
	s.Keys = append(s.Keys, append([]byte{}, k...))
	s.Vals = append(s.Vals, append([]byte{}, v...))
}

func VerifCdbFindStart(c *cdb.Cdb, ctx *cdb.Context) {
	p := verifCdbPos[ctx]
	if p == nil {
		p = new(int)
		verifCdbPos[ctx] = p
	}
	*p = 0
}

func VerifCdbFindNext(c *cdb.Cdb, key []byte, ctx *cdb.Context) ([]byte, error) {
	s := verifCdbStores[c]
	s.Uses++
	if s.Closed {
		s.UseAfterClose++
	}
	p := verifCdbPos[ctx]
	if p == nil {
		p = new(int)
		verifCdbPos[ctx] = p
	}
	for *p < len(s.Keys) {
		i := *p
		*p = i + 1
		if bytes.Equal(s.Keys[i], key) {
			return s.Vals[i], nil
		}
	}
	return nil, io.EOF
}

func VerifCdbClose(c *cdb.Cdb) error {
	s := verifCdbStores[c]
	s.Closes++
	s.Closed = true
	return nil
}

// VerifNewCdbDriver wraps a CDB model into the real cdbdriver.
func VerifNewCdbDriver(s *VerifCdbStore) *cdbdriver {
	c := &cdb.Cdb{}
	verifCdbStores[c] = s
	d := &cdbdriver{db: c}
	d.contextPool.New = newCdbContextFunc
	return d
}

// VerifNewRdbDriver wraps a RocksDB model into the real rdbdriver (as openRDB does).
func VerifNewRdbDriver(m *rdb.VerifDB) *rdbdriver {
	r := rdb.VerifNewRDB(m, true)
	return &rdbdriver{db: r, isDataSorted: r.IsV2KeySyntaxUsed()}
}

// VerifLoadRocks loads codec output into the RocksDB model the way the compiler does:
// values of equal keys are concatenated, in order, as length-prefixed chunks.
func VerifLoadRocks(m *rdb.VerifDB, recs []dnsdata.MapRecord) {
	type grp struct {
		k    []byte
		vals [][]byte
	}
	var groups []grp
	for _, r := range recs {
		found := false
		for i := range groups {
			if bytes.Equal(groups[i].k, r.Key) {
				groups[i].vals = append(groups[i].vals, r.Value)
				found = true
				break
			}
		}
		if !found {
			groups = append(groups, grp{r.Key, [][]byte{r.Value}})
		}
	}
	for _, g := range groups {
		m.Cur = m.Cur.WithKV(g.k, rdb.VerifEncodeValues(g.vals))
	}
}

// VerifLoadCdb loads codec output into the CDB model (one pair per record, in order).
func VerifLoadCdb(s *VerifCdbStore, recs []dnsdata.MapRecord) {
	for _, r := range recs {
		s.Add(r.Key, r.Value)
	}
}

// VerifNewDB wraps a back end into a *DB, as Open does.
func VerifNewDB(dbi DBI) *DB { return &DB{dbi: dbi} }

// VerifDBI returns the back end of a *DB.
func VerifDBI(d *DB) DBI { return d.dbi }

// Storage layouts.
const (
	VerifLayoutCDB = 0 // CDB file, v1 keys
	VerifLayoutV1  = 1 // RocksDB, v1 keys
	VerifLayoutV2  = 2 // RocksDB, v2 (reversed, sorted) keys
)

// VerifBuildStore compiles abstract records with the real encoders into a model store of the
// given layout and returns the real driver over it.
func VerifBuildStore(recs []dnsdata.VerifRec, layout int) (DBI, error) {
	codec := dnsdata.VerifNewCodec(layout != VerifLayoutCDB)
	codec.Features.UseV2Keys = layout == VerifLayoutV2
	var out []dnsdata.MapRecord
	for _, r := range recs {
		m, err := dnsdata.VerifMarshalRec(codec, r)
		if err != nil {
			return nil, err
		}
		out = append(out, m...)
	}
	fin, err := dnsdata.VerifFinish(codec)
	if err != nil {
		return nil, err
	}
	out = append(out, fin...)
	if layout == VerifLayoutCDB {
		s := &VerifCdbStore{}
		VerifLoadCdb(s, out)
		return VerifNewCdbDriver(s), nil
	}
	m := rdb.NewVerifDB()
	VerifLoadRocks(m, out)
	return VerifNewRdbDriver(m), nil
}

package db

// Shared store models and constructors for the db-package harnesses.

import (
	"bytes"
	"io"

	"github.com/facebookincubator/dns/dnsrocks/dnsdata"
	"github.com/facebookincubator/dns/dnsrocks/dnsdata/rdb"
	cdb "github.com/repustate/go-cdb"

	"github.com/facebookincubator/dns/dnsrocks/zzverif/nd"
)

//verif:subst * (*github.com/repustate/go-cdb.Cdb).FindStart github.com/facebookincubator/dns/dnsrocks/db.VerifCdbFindStart
//verif:subst * (*github.com/repustate/go-cdb.Cdb).FindNext github.com/facebookincubator/dns/dnsrocks/db.VerifCdbFindNext
//verif:subst * (*github.com/repustate/go-cdb.Cdb).Close github.com/facebookincubator/dns/dnsrocks/db.VerifCdbClose

// VerifCdbStore models a CDB file by contract: exact-match multi-value store, values of a
// key returned in insertion order, then io.EOF (this contract is what C16 decides for the
// real file format).
type VerifCdbStore struct {
	Keys   [][]byte
	Vals   [][]byte
	Closed bool
	Closes int
	Uses   int
	UseAfterClose int
}

var (
	verifCdbStores = map[*cdb.Cdb]*VerifCdbStore{}
	verifCdbPos    = map[*cdb.Context]*int{}
)

func (s *VerifCdbStore) Add(k, v []byte) {
	s.Keys = append(s.Keys, append([]byte{}, k...))
	s.Vals = append(s.Vals, append([]byte{}, v...))
}

func VerifCdbFindStart(c *cdb.Cdb, ctx *cdb.Context) {
	p := verifCdbPos[ctx]
	if p == nil {
		p = new(int)
		verifCdbPos[ctx] = p
	}
	*p = 0
}

func VerifCdbFindNext(c *cdb.Cdb, key []byte, ctx *cdb.Context) ([]byte, error) {
	if !rdb.VerifNoYield {
		nd.Yield() // every storage operation is a pre-emption point for schedule exploration
	}
	s := verifCdbStores[c]
	s.Uses++
	if s.Closed {
		s.UseAfterClose++
	}
	p := verifCdbPos[ctx]
	if p == nil {
		p = new(int)
		verifCdbPos[ctx] = p
	}
	for *p < len(s.Keys) {
		i := *p
		*p = i + 1
		if bytes.Equal(s.Keys[i], key) {
			return s.Vals[i], nil
		}
	}
	return nil, io.EOF
}

func VerifCdbClose(c *cdb.Cdb) error {
	s := verifCdbStores[c]
	s.Closes++
	s.Closed = true
	return nil
}

// VerifNewCdbDriver wraps a CDB model into the real cdbdriver.
func VerifNewCdbDriver(s *VerifCdbStore) *cdbdriver {
	c := &cdb.Cdb{}
	verifCdbStores[c] = s
	d := &cdbdriver{db: c}
	d.contextPool.New = newCdbContextFunc
	return d
}

// VerifNewRdbDriver wraps a RocksDB model into the real rdbdriver (as openRDB does).
func VerifNewRdbDriver(m *rdb.VerifDB) *rdbdriver {
	r := rdb.VerifNewRDB(m, true)
	return &rdbdriver{db: r, isDataSorted: r.IsV2KeySyntaxUsed()}
}

// VerifLoadRocks loads codec output into the RocksDB model the way the compiler does:
// values of equal keys are concatenated, in order, as length-prefixed chunks.
func VerifLoadRocks(m *rdb.VerifDB, recs []dnsdata.MapRecord) {
	type grp struct {
		k    []byte
		vals [][]byte
	}
	var groups []grp
	for _, r := range recs {
		found := false
		for i := range groups {
			if bytes.Equal(groups[i].k, r.Key) {
				groups[i].vals = append(groups[i].vals, r.Value)
				found = true
				break
			}
		}
		if !found {
			groups = append(groups, grp{r.Key, [][]byte{r.Value}})
		}
	}
	for _, g := range groups {
		m.Cur = m.Cur.WithKV(g.k, rdb.VerifEncodeValues(g.vals))
	}
}

// VerifLoadCdb loads codec output into the CDB model (one pair per record, in order).
func VerifLoadCdb(s *VerifCdbStore, recs []dnsdata.MapRecord) {
	for _, r := range recs {
		s.Add(r.Key, r.Value)
	}
}

// VerifNewDB wraps a back end into a *DB, as Open does.
func VerifNewDB(dbi DBI) *DB { return &DB{dbi: dbi} }

// VerifDBI returns the back end of a *DB.
func VerifDBI(d *DB) DBI { return d.dbi }

// Storage layouts.
const (
	VerifLayoutCDB = 0 // CDB file, v1 keys
	VerifLayoutV1  = 1 // RocksDB, v1 keys
	VerifLayoutV2  = 2 // RocksDB, v2 (reversed, sorted) keys
)

// VerifBuildStore compiles abstract records with the real encoders into a model store of the
// given layout and returns the real driver over it.
func VerifBuildStore(recs []dnsdata.VerifRec, layout int) (DBI, error) {
	old := rdb.VerifNoYield
	rdb.VerifNoYield = true
	defer func() { rdb.VerifNoYield = old }()
	codec := dnsdata.VerifNewCodec(layout != VerifLayoutCDB)
	codec.Features.UseV2Keys = layout == VerifLayoutV2
	var out []dnsdata.MapRecord
	for _, r := range recs {
		m, err := dnsdata.VerifMarshalRec(codec, r)
		if err != nil {
			return nil, err
		}
		out = append(out, m...)
	}
	fin, err := dnsdata.VerifFinish(codec)
	if err != nil {
		return nil, err
	}
	out = append(out, fin...)
	if layout == VerifLayoutCDB {
		s := &VerifCdbStore{}
		VerifLoadCdb(s, out)
		return VerifNewCdbDriver(s), nil
	}
	m := rdb.NewVerifDB()
	VerifLoadRocks(m, out)
	return VerifNewRdbDriver(m), nil
}

// ---- generations (C05/C12/C14): what a path on disk currently holds ----

// VerifOpen is consulted by the openRDB/openCDB substitutes: it returns the back end for a
// path, or an error.
var VerifOpen func(path string) (DBI, error)

//verif:subst * github.com/facebookincubator/dns/dnsrocks/db.openRDB github.com/facebookincubator/dns/dnsrocks/db.VerifOpenStub
//verif:subst * github.com/facebookincubator/dns/dnsrocks/db.openCDB github.com/facebookincubator/dns/dnsrocks/db.VerifOpenStub

func VerifOpenStub(path string) (DBI, error) { return VerifOpen(path) }

// VerifSetRdbPath sets the path an rdbdriver believes it was opened from.
func VerifSetRdbPath(d DBI, path string) {
	if r, ok := d.(*rdbdriver); ok {
		r.path = path
	}
}

// VerifRocksModel returns the model behind an rdbdriver (nil for other drivers).
func VerifRocksModel(d DBI) *rdb.VerifDB {
	if r, ok := d.(*rdbdriver); ok {
		return rdb.VerifModelOf(r.db)
	}
	return nil
}

// VerifBuildSnapshot compiles records into a RocksDB snapshot (used to advance a primary).
func VerifBuildSnapshot(recs []dnsdata.VerifRec, v2 bool) (*rdb.VerifSnap, error) {
	layout := VerifLayoutV1
	if v2 {
		layout = VerifLayoutV2
	}
	d, err := VerifBuildStore(recs, layout)
	if err != nil {
		return nil, err
	}
	return VerifRocksModel(d).Cur, nil
}

// VerifPrimaryOf wraps a snapshot as the primary a secondary catches up with.
func VerifPrimaryOf(s *rdb.VerifSnap) *rdb.VerifDB {
	p := rdb.NewVerifDB()
	p.Cur = s
	return p
}

package db

// C02 (map look-up part) — the closest-key search of the v2 layout finds the same location map
// for a name as the label-by-label search of the CDB and v1 layouts.
//
// K map declarations chosen by the solver from a pool (exact and wildcard entries at the root,
// at z, c.z, g.c.z and a sibling that sorts between them) are compiled by the real encoders
// into the three layouts; FindMap of each real driver is asked for a name with a symbolic byte.

import (
	"bytes"

	"github.com/facebookincubator/dns/dnsrocks/dnsdata"
	"github.com/facebookincubator/dns/dnsrocks/zzverif/nd"
)

//verif:include ../dnsdata/rdb/zz_verif_model.go
//verif:include zz_verif_world.go
//verif:harness H02_findmap property=C02 native=no quick=k=1;k=2 thorough=k=3

func verifMapPool() []dnsdata.VerifRec {
	return []dnsdata.VerifRec{
		{Kind: 'M', Dom: []byte("z"), Lmap: [2]byte{0, '1'}},
		{Kind: 'M', Dom: []byte("z"), Wild: true, Lmap: [2]byte{0, '2'}},
		{Kind: 'M', Dom: []byte("c.z"), Lmap: [2]byte{0, '3'}},
		{Kind: 'M', Dom: []byte("c.z"), Wild: true, Lmap: [2]byte{0, '4'}},
		{Kind: 'M', Dom: []byte("g.c.z"), Wild: true, Lmap: [2]byte{0, '5'}},
		{Kind: 'M', Dom: []byte("cc.z"), Lmap: [2]byte{0, '6'}},
		{Kind: 'M', Dom: []byte("b.z"), Wild: true, Lmap: [2]byte{0, '7'}},
		{Kind: 'M', Dom: []byte("y"), Wild: true, Lmap: [2]byte{0, '8'}},
		{Kind: 'M', Dom: []byte(""), Wild: true, Lmap: [2]byte{0, '9'}},
		{Kind: 'M', Dom: []byte(""), Lmap: [2]byte{0, 'r'}},
	}
}

var verifMapNames = []string{
	"\x01z\x00", "\x01?\x01z\x00", "\x01?\x01c\x01z\x00", "\x02c?\x01z\x00", "\x01?\x00",
	"\x01?\x01g\x01c\x01z\x00", "\x01g\x01?\x01z\x00", "\x01x\x01?\x01c\x01z\x00", "\x00",
	// a deep name: thirteen labels between the name and the wildcard map of z
	"\x01a\x01b\x01c\x01d\x01e\x01f\x01g\x01h\x01i\x01j\x01k\x01l\x01?\x01z\x00",
}

//verif:harness H03_findmap property=C03 native=no quick=k=1;k=2 thorough=k=3

// H03_findmap: the same run registered for C03, whose statement contains the name-to-map rule.
func H03_findmap() { H02_findmap() }

// verifWireName: "c.z" -> \x01c\x01z\x00
func verifWireName(dom []byte) []byte {
	var out []byte
	for _, l := range bytes.Split(dom, []byte(".")) {
		if len(l) > 0 {
			out = append(out, byte(len(l)))
			out = append(out, l...)
		}
	}
	return append(out, 0)
}

func H02_findmap() {
	k := nd.Param("k")
	pool := verifMapPool()
	var recs []dnsdata.VerifRec
	last := -1
	for i := 0; i < k; i++ {
		// bound: distinct pool entries in increasing order (a map is declared once per name)
		j := last + 1 + nd.Choice(len(pool)-last-1-(k-1-i))
		recs = append(recs, pool[j])
		last = j
	}
	// some answer data so that the map keys have neighbours of other kinds
	recs = append(recs, dnsdata.VerifRec{Kind: '+', Dom: []byte("c.z"), TTL: 300, IP: []byte{192, 0, 2, 1}, Weight: 1})

	q := []byte(verifMapNames[nd.Choice(len(verifMapNames))])
	for i := range q {
		if q[i] == '?' {
			b := nd.Byte()
			nd.Assume(b < 'A' || b > 'Z') // the handler lower-cases the name before the look-up
			q[i] = b
		}
	}
	var ids [3][]byte
	for layout := 0; layout < 3; layout++ {
		d, err := VerifBuildStore(recs, layout)
		nd.Assert(err == nil, "store-built")
		ctx := d.NewContext()
		id, err := d.FindMap(append([]byte{}, q...), []byte{0, 'M'}, ctx)
		d.FreeContext(ctx)
		nd.Assert(err == nil, "findmap-no-error")
		ids[layout] = id
	}
	// C03's name-to-map rule, stated independently: the exact-name map, else the wildcard map of
	// the nearest enclosing name (the name's own wildcard entry does not cover the name itself)
	var want []byte
	match := func(wire []byte, r dnsdata.VerifRec) bool {
		w := verifWireName(r.Dom)
		return bytes.Equal(w, wire)
	}
	for _, r := range recs {
		if r.Kind == 'M' && !r.Wild && match(q, r) {
			want = []byte{r.Lmap[0], r.Lmap[1]}
		}
	}
	for rest := q; want == nil && rest[0] != 0; {
		rest = rest[1+int(rest[0]):]
		for _, r := range recs {
			if r.Kind == 'M' && r.Wild && match(rest, r) {
				want = []byte{r.Lmap[0], r.Lmap[1]}
			}
		}
	}
	nd.Assert(bytes.Equal(ids[0], want), "exact-name-map-else-nearest-enclosing-wildcard-map")
	nd.Assert(bytes.Equal(ids[0], ids[1]), "cdb-and-rocksdb-v1-find-the-same-map")
	nd.Assert(bytes.Equal(ids[0], ids[2]), "label-by-label-and-closest-key-find-the-same-map")
}

package cdb

// C16 — a written CDB file returns every value, in order, and nothing else.
//
// The hash is an oracle: a fresh symbolic 32-bit value per distinct key content (equal
// contents => equal hash), its low byte confined to a small set of tables per shape. The
// solver therefore chooses collisions in table, slot, full hash, and probe wrap-around.

import (
	"bufio"
	"bytes"
	"hash"
	"io"

	"github.com/repustate/go-cdb/zzverif/nd"
)

//verif:harness H16_find property=C16 native=no quick=n=1,maxk=1,maxv=1,tset=0;n=2,maxk=1,maxv=1,tset=0;n=3,maxk=1,maxv=0,tset=1 thorough=n=1,maxk=2,maxv=1,tset=0;n=2,maxk=2,maxv=1,tset=0
//verif:subst H16_find github.com/dgryski/go-spooky.Hash32 verifOracleHash
//verif:harness H16_dump property=C16 native=no quick=n=1,maxk=1,maxv=1,tset=0;n=2,maxk=1,maxv=1,tset=1 thorough=n=2,maxk=2,maxv=1,tset=0;n=3,maxk=1,maxv=1,tset=1
//verif:subst H16_dump github.com/dgryski/go-spooky.Hash32 verifOracleHash
//verif:subst H16_dump github.com/repustate/go-cdb.cdbHash verifCdbHash

type verifMemFile struct {
	buf []byte
	pos int
}

func (m *verifMemFile) Write(p []byte) (int, error) {
	end := m.pos + len(p)
	for len(m.buf) < end {
		m.buf = append(m.buf, 0)
	}
	copy(m.buf[m.pos:end], p)
	m.pos = end
	return len(p), nil
}

func (m *verifMemFile) Seek(off int64, whence int) (int64, error) {
	switch whence {
	case 0:
		m.pos = int(off)
	case 1:
		m.pos += int(off)
	case 2:
		m.pos = len(m.buf) + int(off)
	}
	return int64(m.pos), nil
}

type verifHEntry struct {
	k []byte
	h uint32
}

var (
	verifOracle []verifHEntry
	verifTables []uint32
)

// verifTableSets: the low hash bytes (table numbers) a shape may use. Set 0 exercises
// neighbouring tables and the first/last table, set 1 a single table (maximal chaining),
// set 2 two tables.
var verifTableSets = [][]uint32{{0, 1, 255}, {7}, {3, 200}}

// verifOracleHash is the hash oracle standing in for spooky.Hash32 and the writer's hasher.
func verifOracleHash(k []byte) uint32 {
	for _, e := range verifOracle {
		if bytes.Equal(e.k, k) {
			return e.h
		}
	}
	t := verifTables[nd.Choice(len(verifTables))]
	h := (nd.Uint32() &^ 0xff) | t
	verifOracle = append(verifOracle, verifHEntry{append([]byte{}, k...), h})
	return h
}

// verifHasher implements hash.Hash32 on top of the oracle.
type verifHasher struct{ acc []byte }

func (h *verifHasher) Write(p []byte) (int, error) { h.acc = append(h.acc, p...); return len(p), nil }
func (h *verifHasher) Sum(b []byte) []byte         { return b }
func (h *verifHasher) Reset()                      { h.acc = h.acc[:0] }
func (h *verifHasher) Size() int                   { return 4 }
func (h *verifHasher) BlockSize() int              { return 1 }
func (h *verifHasher) Sum32() uint32               { return verifOracleHash(h.acc) }

func verifCdbHash() hash.Hash32 { return &verifHasher{} }

func verifNewWriter(mem *verifMemFile) *writer {
	mem.Seek(int64(headerSize), 0)
	w := &writer{
		buf:     make([]byte, 8),
		w:       mem,
		wb:      bufio.NewWriter(mem),
		hash:    &verifHasher{},
		htables: make(map[uint32][]slot),
		pos:     headerSize,
	}
	w.hw = io.MultiWriter(w.hash, w.wb)
	return w
}

type verifKV struct{ k, v []byte }

func verifRecords(n, maxk, maxv int) []verifKV {
	recs := make([]verifKV, n)
	for i := range recs {
		recs[i] = verifKV{nd.Bytes(nd.Choice(maxk + 1)), nd.Bytes(nd.Choice(maxv + 1))}
	}
	return recs
}

// H16_find: write n records, close, then look an arbitrary key up.
func H16_find() {
	n, maxk, maxv := nd.Param("n"), nd.Param("maxk"), nd.Param("maxv")
	verifOracle = nil
	verifTables = verifTableSets[nd.Param("tset")]
	mem := &verifMemFile{}
	w := verifNewWriter(mem)
	recs := verifRecords(n, maxk, maxv)
	for i := range recs {
		nd.Assert(w.Put(recs[i].k, recs[i].v) == nil, "put-ok")
	}
	nd.Assert(w.Close() == nil, "close-ok")

	c := &Cdb{mmappedData: mem.buf}
	K := nd.Bytes(nd.Choice(maxk + 1))
	ctx := NewContext()
	c.FindStart(ctx)
	for _, r := range recs {
		if bytes.Equal(r.k, K) {
			v, err := c.FindNext(K, ctx)
			nd.Assert(err == nil, "next-found")
			nd.Assert(bytes.Equal(v, r.v), "next-value-in-order")
		}
	}
	_, err := c.FindNext(K, ctx)
	nd.Assert(err == io.EOF, "then-eof")
}

// H16_dump: Dump of a written file followed by Make reproduces the file bytes.
func H16_dump() {
	n, maxk, maxv := nd.Param("n"), nd.Param("maxk"), nd.Param("maxv")
	verifOracle = nil
	verifTables = verifTableSets[nd.Param("tset")]
	mem := &verifMemFile{}
	w := verifNewWriter(mem)
	recs := verifRecords(n, maxk, maxv)
	for i := range recs {
		// the text dump format cannot carry a newline-free guarantee: bytes are arbitrary
		nd.Assert(w.Put(recs[i].k, recs[i].v) == nil, "put-ok")
	}
	nd.Assert(w.Close() == nil, "close-ok")

	var text bytes.Buffer
	nd.Assert(Dump(&text, bytes.NewReader(mem.buf)) == nil, "dump-ok")
	mem2 := &verifMemFile{}
	nd.Assert(Make(mem2, bytes.NewReader(text.Bytes())) == nil, "make-ok")
	nd.Assert(bytes.Equal(mem.buf, mem2.buf), "dump-make-identical")
}

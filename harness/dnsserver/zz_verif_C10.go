package dnsserver

// C10 — EDNS Client Subnet is echoed faithfully with a truthful scope.
//
// World 0 has an ECS map for z and *.z with 20.0.0.0/8 -> L1 and 2001:db8::/32 -> L2; names
// outside z have no ECS map. The ECS option of the query is symbolic.

import (
	"context"
	"net"

	"github.com/facebookincubator/dns/dnsrocks/zzverif/nd"
	"github.com/miekg/dns"
)

//verif:include ../dnsdata/rdb/zz_verif_model.go
//verif:include ../db/zz_verif_world.go
//verif:harness H10_echo property=C10 native=no quick=world=0,layout=2,edns=2,fam=1,cache=0;world=0,layout=0,edns=2,fam=2,cache=0;world=0,layout=1,edns=5,fam=1,cache=1;world=1,layout=2,edns=2,fam=1,cache=0;world=1,layout=0,edns=2,fam=1,cache=1 thorough=world=1,layout=0,edns=2,fam=2,cache=1;world=0,layout=1,edns=2,fam=2,cache=0;world=0,layout=2,edns=5,fam=2,cache=0;world=0,layout=2,edns=2,fam=0,cache=0;world=1,layout=1,edns=4,fam=1,cache=0

var verifC10Names = []string{"c.z.", "z.", "q.z.", "y.", "."}

func verifFindOPT(m *dns.Msg) (*dns.OPT, int) {
	var o *dns.OPT
	n := 0
	for _, rr := range m.Extra {
		if x, ok := rr.(*dns.OPT); ok {
			o = x
			n++
		}
	}
	return o, n
}

// verifJudgeECS checks one response against the query's ECS as it was before serving.
func verifJudgeECS(resp *dns.Msg, hadOPT bool, fam uint16, mask, qscope uint8, addr net.IP, hasMap bool, tag string) {
	o, n := verifFindOPT(resp)
	if !hadOPT {
		nd.Assert(n == 0, tag+":no-opt-without-query-opt")
		return
	}
	nd.Assert(n == 1, tag+":exactly-one-opt")
	var e *dns.EDNS0_SUBNET
	others := 0
	for _, opt := range o.Option {
		if s, ok := opt.(*dns.EDNS0_SUBNET); ok {
			nd.Assert(e == nil, tag+":single-ecs-option")
			e = s
		} else {
			others++
		}
	}
	nd.Assert(others == 0, tag+":unknown-options-not-echoed")
	nd.Assert(e != nil, tag+":ecs-echoed")
	nd.Assert(e.Family == fam, tag+":family-unchanged")
	nd.Assert(e.SourceNetmask == mask, tag+":source-prefix-unchanged")
	nd.Assert(e.Address.Equal(addr), tag+":address-unchanged")
	if fam == 1 {
		nd.Assert(e.SourceScope <= 32, tag+":scope-within-family-width")
	}
	if fam == 2 {
		nd.Assert(e.SourceScope <= 128, tag+":scope-within-family-width")
	}
	if fam == 0 {
		return // the statement gives no meaning to the scope of family 0
	}
	if !hasMap {
		nd.Assert(e.SourceScope == 0, tag+":scope-zero-without-ecs-map")
		return
	}
	a16 := addr.To16()
	in20 := fam == 1 && mask >= 8 && a16[12] == 20
	// a family-2 option may carry an IPv4-mapped address: the declared IPv4 subnet 20/8 is
	// ::ffff:20.0.0.0/104 in the client's family
	mapped := fam == 2 && a16[10] == 0xff && a16[11] == 0xff
	for i := 0; i < 10; i++ {
		mapped = mapped && a16[i] == 0
	}
	in20m := mapped && mask >= 104 && a16[12] == 20
	inDB8 := fam == 2 && mask >= 32 && a16[0] == 0x20 && a16[1] == 0x01 && a16[2] == 0x0d && a16[3] == 0xb8
	switch {
	case in20:
		nd.Assert(e.SourceScope == 8, tag+":scope-is-deciding-subnet-length")
	case in20m:
		nd.Assert(e.SourceScope == 104, tag+":scope-is-deciding-subnet-length-in-client-family")
	case inDB8:
		nd.Assert(e.SourceScope == 32, tag+":scope-is-deciding-subnet-length")
	case fam == 1:
		nd.Assert(e.SourceScope == 24, tag+":default-scope-when-no-subnet-matches")
	default:
		nd.Assert(e.SourceScope == 48, tag+":default-scope-when-no-subnet-matches")
	}
}

func H10_echo() {
	world, layout := nd.Param("world"), nd.Param("layout")
	cache := CacheConfig{}
	if nd.Param("cache") == 1 {
		cache = CacheConfig{Enabled: true, LRUSize: 2}
	}
	env := verifWorldHandler(world, layout, cache)
	names := verifC10Names
	if world == 1 {
		names = []string{"a.", "."} // a root zone without any map
	}
	ni := nd.Choice(len(names))
	name := names[ni]
	hasMap := world == 0 && ni <= 2
	qtype := []uint16{dns.TypeA, dns.TypeTXT}[nd.Choice(2)]
	rounds := 1
	if cache.Enabled {
		rounds = 2 // second round is served from the cache
	}
	for r := 0; r < rounds; r++ {
		if cache.Enabled && r == 0 {
			// populate the cache with a plain query from a fixed client (bound: the priming query is concrete)
			pq := new(dns.Msg)
			pq.Id = 7
			pq.Question = []dns.Question{{Name: name, Qtype: qtype, Qclass: dns.ClassINET}}
			pw := &verifWriter{remote: verifClientIPs[2]}
			_, _ = env.h.ServeDNSWithRCODE(context.Background(), pw, pq)
			continue
		}
		q, ecs := verifBuildQuery(name, qtype, verifQueryOpts{edns: nd.Param("edns"), ecsFam: nd.Param("fam")})
		o := q.IsEdns0()
		nd.Assume(o.Version() == 0) // BADVERS replies are judged by C13
		fam, mask, qscope := ecs.Family, ecs.SourceNetmask, ecs.SourceScope
		addr := append(net.IP{}, ecs.Address...)
		w := verifClient()
		if cache.Enabled {
			w = &verifWriter{remote: verifClientIPs[2]} // same location as the priming query
		}
		_, _ = env.h.ServeDNSWithRCODE(context.Background(), w, q)
		nd.Assert(len(w.written) == 1, "one-reply")

		// recorded finding, as narrow as what was observed: a REFUSED reply carries exactly one OPT
		// record and that OPT has no option at all (any other shape of a REFUSED reply is judged)
		ro, rn := verifFindOPT(w.written[0])
		nd.Known("C10-refused-no-ecs", w.written[0].Rcode == dns.RcodeRefused && rn == 1 && len(ro.Option) == 0)
		tag := "uncached"
		if r == 1 {
			tag = "cached"
		}
		verifJudgeECS(w.written[0], true, fam, mask, qscope, addr, hasMap, tag)
	}
	if cache.Enabled {
		// a later plain query served from the same cache entry carries nothing of the earlier one
		pq := new(dns.Msg)
		pq.Id = 9
		pq.Question = []dns.Question{{Name: name, Qtype: qtype, Qclass: dns.ClassINET}}
		pw := &verifWriter{remote: verifClientIPs[2]}
		_, _ = env.h.ServeDNSWithRCODE(context.Background(), pw, pq)
		nd.Assert(len(pw.written) == 1, "one-reply")
		verifJudgeECS(pw.written[0], false, 0, 0, 0, nil, hasMap, "plain-after-cached")
	}
}

func qclassDiffers(q *dns.Msg) bool { return q.Question[0].Qclass != dns.ClassINET }

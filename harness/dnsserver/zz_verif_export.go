package dnsserver

// Exported wrappers of the handler world for harnesses in other packages (fbserver).

import (
	"net"

	"github.com/facebookincubator/dns/dnsrocks/dnsdata"
	"github.com/miekg/dns"
)

// VerifWriter is the recording dns.ResponseWriter.
type VerifWriter = verifWriter

// VerifNewWriter returns a recording writer for the given transport and client address.
func VerifNewWriter(tcp bool, remote net.IP) *VerifWriter { return &verifWriter{tcp: tcp, remote: remote} }

// Written returns the messages passed to WriteMsg.
func (w *verifWriter) Written() []*dns.Msg { return w.written }

// VerifBigWorld: the zone world plus a name with three large TXT records (a response above
// 512 bytes) and a name with three equally weighted addresses.
func VerifBigWorld() []dnsdata.VerifRec {
	recs := verifZoneWorld()
	big := make([]byte, 180)
	for i := range big {
		big[i] = 'x'
	}
	for k := 0; k < 3; k++ {
		recs = append(recs, dnsdata.VerifRec{Kind: '\'', Dom: []byte("big.z"), TTL: 310, Txt: append([]byte{byte('0' + k)}, big...)})
		recs = append(recs, dnsdata.VerifRec{Kind: '+', Dom: []byte("w.z"), TTL: 311, IP: []byte{192, 0, 2, byte(100 + k)}, Weight: 1})
	}
	return recs
}

// VerifHandlerOver builds an FBDNSDB over the given records and layout.
func VerifHandlerOver(recs []dnsdata.VerifRec, layout int) *FBDNSDB {
	return verifRecordsHandler(recs, layout, CacheConfig{}).h
}

// VerifSameResponse asserts that two responses are equal (see C12).
func VerifSameResponse(a, b *dns.Msg, tag string) { verifSameResponse(a, b, tag) }

// VerifWellFormed asserts the C13 well-formedness of a reply.
func VerifWellFormed(q, resp *dns.Msg, tcp bool, tag string) { verifWellFormed(q, resp, tcp, tag) }

// VerifStatsKeyStub replaces typeToStatsKey where the per-type counter name is not the subject:
// the real function looks the type up in a 70-entry map, which splits every path per type.
func VerifStatsKeyStub(qtype uint16) string { return "DNS_query.T" }

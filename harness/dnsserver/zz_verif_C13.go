package dnsserver

// C13 — any query gets a well-formed reply or none; the server never panics.

import (
	"context"

	"github.com/facebookincubator/dns/dnsrocks/zzverif/nd"
	"github.com/miekg/dns"
)

//verif:include ../dnsdata/rdb/zz_verif_model.go
//verif:include ../db/zz_verif_world.go
//verif:harness H13_robust property=C13 native=no quick=world=0,layout=2,edns=0,cache=0;world=0,layout=1,edns=1,cache=0;world=1,layout=2,edns=0,cache=0;world=2,layout=0,edns=0,cache=0;world=3,layout=2,edns=1,cache=0;world=0,layout=2,edns=0,cache=1 thorough=world=1,layout=1,edns=1,cache=0;world=1,layout=2,edns=3,cache=0;world=2,layout=2,edns=1,cache=0;world=0,layout=1,edns=0,cache=1

// verifWellFormed: what C13 demands of a written message.
func verifWellFormed(q, resp *dns.Msg, tcp bool, tag string) {
	nd.Assert(resp.Id == q.Id, tag+":id-echoed")
	nd.Assert(resp.Response, tag+":qr-set")
	nd.Assert(len(resp.Question) == 1 && resp.Question[0] == q.Question[0], tag+":question-echoed")
	buf, err := resp.Pack()
	nd.Assert(err == nil, tag+":packable")
	limit := 512
	if tcp {
		limit = 65535
	} else if o := q.IsEdns0(); o != nil && int(o.UDPSize()) > limit {
		limit = int(o.UDPSize())
	}
	nd.Assert(len(buf) <= limit || resp.Truncated, tag+":within-advertised-size-or-TC")
}

// verifFlipCase flips the case of every ASCII letter.
func verifFlipCase(s string) string {
	b := []byte(s)
	for i := range b {
		if b[i] >= 'a' && b[i] <= 'z' {
			b[i] -= 32
		} else if b[i] >= 'A' && b[i] <= 'Z' {
			b[i] += 32
		}
	}
	return string(b)
}

// H13_robust: arbitrary query against a world; no panic, at most one write, well-formed reply.
func H13_robust() {
	world, layout := nd.Param("world"), nd.Param("layout")
	cache := CacheConfig{}
	if nd.Param("cache") == 1 {
		cache = CacheConfig{Enabled: true, LRUSize: 4}
	}
	env := verifWorldHandler(world, layout, cache)
	name := verifQuestionName(world)
	qtype := verifQtypes[nd.Choice(len(verifQtypes))]
	opts := verifQueryOpts{edns: nd.Param("edns")}
	if opts.edns == 2 || opts.edns == 4 {
		opts.ecsFam = nd.Choice(3)
	}
	q, _ := verifBuildQuery(name, qtype, opts)
	w := verifClient()
	if cache.Enabled {
		// an earlier query for the same name in the other letter case and with the opposite RD/CD
		// bits fills the response cache: the reply to q may then be built from the cached entry
		p := new(dns.Msg)
		p.Id = q.Id + 1
		p.RecursionDesired = !q.RecursionDesired
		p.CheckingDisabled = !q.CheckingDisabled
		p.Opcode = q.Opcode
		p.Question = []dns.Question{{Name: verifFlipCase(name), Qtype: qtype, Qclass: q.Question[0].Qclass}}
		pw := &verifWriter{tcp: w.tcp, remote: w.remote}
		_, _ = env.h.ServeDNSWithRCODE(context.Background(), pw, p)
	}
	// "returns": names have at most four labels and the stores under sixty keys, so no loop of the
	// handler or the readers needs anywhere near this many iterations
	// the EDNS version as sent (coredns reuses the request's OPT record for some replies and
	// resets its version, so it must be read before the call)
	sentVersion, hasOPT := uint8(0), false
	if o := q.IsEdns0(); o != nil {
		sentVersion, hasOPT = o.Version(), true
	}
	nd.HangBound(5000)
	_, _ = env.h.ServeDNSWithRCODE(context.Background(), w, q)
	nd.HangBound(0)
	nd.Assert(len(w.written)+w.raw <= 1, "at-most-one-reply")
	if len(w.written) == 1 {
		resp := w.written[0]
		if hasOPT && sentVersion != 0 {
			nd.Assert(resp.Rcode == dns.RcodeBadVers, "unsupported-edns-version-gets-BADVERS")
			// recorded finding, as narrow as what was observed: the BADVERS reply built by
			// coredns' edns.Version has no question section (everything else about a reply to an
			// unsupported version is still judged)
			nd.Known("C13-badvers-empty-question", resp.Rcode == dns.RcodeBadVers && len(resp.Question) == 0)
		}
		verifWellFormed(q, resp, w.tcp, "reply")
	}
}

package dnsserver

// C19 (counter / query-log part): each handled query bumps the query counter and its type
// counter exactly once, outcome counters follow the response actually sent, every composed
// response is logged exactly once as the message really written.

import (
	"context"

	"github.com/facebookincubator/dns/dnsrocks/zzverif/nd"
	"github.com/miekg/dns"
)

//verif:include ../dnsdata/rdb/zz_verif_model.go
//verif:include ../db/zz_verif_world.go
//verif:harness H19_counters property=C19 native=no quick=world=0,layout=2,edns=1,cache=0;world=1,layout=0,edns=0,cache=0;world=0,layout=0,edns=0,cache=1 thorough=world=0,layout=1,edns=2,cache=1;world=2,layout=2,edns=1,cache=0;world=3,layout=1,edns=0,cache=1

func H19_counters() {
	world, layout := nd.Param("world"), nd.Param("layout")
	cache := CacheConfig{}
	if nd.Param("cache") == 1 {
		cache = CacheConfig{Enabled: true, LRUSize: 2}
	}
	env := verifWorldHandler(world, layout, cache)
	name := verifQuestionName(world)
	qtype := verifQtypes[nd.Choice(len(verifQtypes))]
	opts := verifQueryOpts{edns: nd.Param("edns")}
	q, _ := verifBuildQuery(name, qtype, opts)
	w := verifClient()
	_, _ = env.h.ServeDNSWithRCODE(context.Background(), w, q)
	c := env.stats.counters

	nd.Assert(c["DNS_queries"] == 1, "query-counter-once")
	nd.Assert(c[typeToStatsKey(qtype)] == 1, "type-counter-once")
	var typeTotal int64
	for k, v := range c {
		if len(k) > len(TypeToStatsPrefix)+1 && k[:len(TypeToStatsPrefix)+1] == TypeToStatsPrefix+"." {
			typeTotal += v
		}
	}
	nd.Assert(typeTotal == 1, "no-other-type-counter")

	// composed responses: written and logged exactly once, as the same message
	composed := 0
	for _, m := range w.written {
		n := 0
		for _, l := range env.logger.logged {
			if l == m {
				n++
			}
		}
		if n == 0 {
			nd.Assert(m.Rcode == dns.RcodeServerFailure, "unlogged-reply-is-a-bare-failure")
			continue
		}
		nd.Assert(n == 1, "composed-response-logged-exactly-once")
		composed++
	}
	for _, l := range env.logger.logged {
		found := false
		for _, m := range w.written {
			found = found || l == m
		}
		// the one exception in the code: an unpackable zone cut logs the request after HandleFailed
		nd.Assert(found || l == q, "logged-message-is-the-one-written")
	}
	nd.Assert(composed <= 1, "at-most-one-composed-response")

	want := map[string]int64{}
	if composed == 1 {
		var resp *dns.Msg
		for _, m := range w.written {
			for _, l := range env.logger.logged {
				if l == m {
					resp = m
				}
			}
		}
		if !resp.Authoritative {
			want["DNS_queries_notauthoritative"] = 1
		}
		switch {
		case resp.Rcode == dns.RcodeNameError:
			want["DNS_queries_nxdomain"] = 1
		case resp.Rcode == dns.RcodeRefused:
			want["DNS_queries_refused"] = 1
		case resp.Rcode == dns.RcodeBadVers:
			want["DNS_queries_badvers"] = 1
		case resp.Rcode == dns.RcodeSuccess && len(resp.Answer) == 0:
			want["DNS_queries_nodata"] = 1
		}
	}
	for _, k := range []string{"DNS_queries_notauthoritative", "DNS_queries_nxdomain", "DNS_queries_refused", "DNS_queries_badvers", "DNS_queries_nodata"} {
		nd.Assert(c[k] == want[k], "outcome-counter:"+k)
	}
	// location class: exactly one when a location was determined (a response was composed past the EDNS check)
	locTotal := c["DNS_location.ecs"] + c["DNS_location.empty"] + c["DNS_location.default"] + c["DNS_location.fallback_default"] + c["DNS_location.resolver"]
	nd.Assert(locTotal <= 1, "at-most-one-location-class")
	if cache.Enabled && composed == 1 && c["DNS_queries_badvers"] == 0 {
		nd.Assert(c["DNS_cache.hit"]+c["DNS_cache.missed"]+c["DNS_cache.expired"] == 1, "exactly-one-cache-outcome")
		nd.Assert(c["DNS_cache.hit"] == 0, "first-query-cannot-hit")
	}
}

package dnsserver

// C12 (reload part) — once a reload has completed, no response computed from the previous
// database generation is served again. Same scenario as C05 with the response cache enabled:
// a query computed on the old generation may reach the cache insertion after the purge.

import (
	"context"

	"github.com/facebookincubator/dns/dnsrocks/db"
	"github.com/facebookincubator/dns/dnsrocks/zzverif/nd"
	"github.com/miekg/dns"
)

//verif:include ../dnsdata/rdb/zz_verif_model.go
//verif:include ../db/zz_verif_world.go
//verif:harness H12_reload property=C12 native=no quick=layout=2,sched=1;layout=0,sched=1 thorough=layout=1,sched=2;layout=2,sched=2

func H12_reload() {
	verifLayout = nd.Param("layout")
	verifPathGen = map[string]int{"/db/gen0": 0}
	verifInstalled = 0
	db.VerifOpen = verifOpenGen
	first, err := verifOpenGen("/db/gen0")
	nd.Assert(err == nil, "initial-open")
	env := verifNewHandler(first, CacheConfig{Enabled: true, LRUSize: 4})
	env.h.dbConfig.ReloadTimeout = 24 * 3600e9
	nd.SchedExplore(nd.Param("sched"))
	done := make(chan struct{}, 2)
	reloaded := false

	ask := func(id uint16) *dns.Msg {
		q := new(dns.Msg)
		q.Id = id
		q.Question = []dns.Question{{Name: "m.z.", Qtype: dns.TypeMX, Qclass: dns.ClassINET}}
		w := &verifWriter{remote: verifClientIPs[2]}
		_, _ = env.h.ServeDNSWithRCODE(context.Background(), w, q)
		nd.Assert(len(w.written) == 1, "one-reply")
		return w.written[0]
	}

	go func() { // a query that may be in flight while the reload purges the cache
		_ = ask(1)
		done <- struct{}{}
	}()
	go func() { // full reload to generation 1
		verifPathGen["/db/gen1"] = 1
		nd.Assert(env.h.Reload(*NewFullReloadSignal("/db/gen1")) == nil, "reload-ok")
		reloaded = true
		done <- struct{}{}
	}()
	<-done
	<-done
	nd.Assert(reloaded, "reload-completed")
	// every query from now on must be answered from generation 1
	for _, g := range verifResponseGens(ask(2)) {
		nd.Assert(g == 1, "no-previous-generation-after-completed-reload")
	}
}

package dnsserver

// C12 (reload part) — once a reload has completed, no response computed from the previous
// database generation is served again. Same scenario as C05 with the response cache enabled:
// a query computed on the old generation may reach the cache insertion after the purge.

import (
	"context"

	"github.com/facebookincubator/dns/dnsrocks/db"
	"github.com/facebookincubator/dns/dnsrocks/zzverif/nd"
	"github.com/miekg/dns"
)

//verif:include ../dnsdata/rdb/zz_verif_model.go
//verif:include ../db/zz_verif_world.go
//verif:harness H12_reload property=C12 native=no quick=layout=2,sched=1,partial=0;layout=0,sched=1,partial=0;layout=2,sched=1,partial=1 thorough=layout=1,sched=2,partial=0;layout=2,sched=2,partial=0;layout=1,sched=1,partial=1

func H12_reload() { verifReloadScenario() }

//verif:harness H19_reload property=C19 native=no quick=layout=2,sched=1,partial=0 thorough=layout=0,sched=1,partial=0;layout=2,sched=1,partial=1

// H19_reload: the cache-outcome counters in the same scenario (a query in flight across a
// reload, then a later query): every query that reached the cache look-up counted exactly one
// of hit / missed / expired.
func H19_reload() {
	env := verifReloadScenario()
	c := env.stats.counters
	nd.Assert(c["DNS_queries"] == 2, "two-queries-counted")
	nd.Assert(c["DNS_cache.hit"]+c["DNS_cache.missed"]+c["DNS_cache.expired"] == c["DNS_queries"], "one-cache-outcome-per-query")
}

func verifReloadScenario() *verifEnv {
	verifLayout = nd.Param("layout")
	verifPathGen = map[string]int{"/db/gen0": 0}
	verifInstalled = 0
	// the TTL base that marks generations is solver-chosen (see C05): the generation of a served
	// record is decided by a solver query over the TTL that went through encoder, reader and cache
	verifGenBase = nd.Uint32()
	nd.Assume(verifGenBase >= 1 && verifGenBase <= 1<<30)
	db.VerifOpen = verifOpenGen
	first, err := verifOpenGen("/db/gen0")
	nd.Assert(err == nil, "initial-open")
	env := verifNewHandler(first, CacheConfig{Enabled: true, LRUSize: 4})
	env.h.dbConfig.ReloadTimeout = 24 * 3600e9
	nd.SchedExplore(nd.Param("sched"))
	done := make(chan struct{}, 2)
	reloaded := false

	ask := func(id uint16) *dns.Msg {
		q := new(dns.Msg)
		q.Id = id
		q.Question = []dns.Question{{Name: "m.z.", Qtype: dns.TypeMX, Qclass: dns.ClassINET}}
		w := &verifWriter{remote: verifClientIPs[2]}
		_, _ = env.h.ServeDNSWithRCODE(context.Background(), w, q)
		nd.Assert(len(w.written) == 1, "one-reply")
		return w.written[0]
	}

	go func() { // a query that may be in flight while the reload purges the cache
		_ = ask(1)
		done <- struct{}{}
	}()
	go func() {
		if nd.Param("partial") == 1 {
			// in-place reload: the primary of the served RocksDB advanced to generation 1 and
			// the secondary catches up; the *db.DB stays the same object
			verifPathGen["/db/gen0"] = 1
			m := db.VerifRocksModel(db.VerifDBI(env.h.dnsdb))
			nd.Assert(m != nil, "rocksdb-layout")
			snap, err := db.VerifBuildSnapshot(verifGenRecords(1), verifLayout == 2)
			nd.Assert(err == nil, "snapshot")
			m.Primary = db.VerifPrimaryOf(snap)
			nd.Assert(env.h.Reload(*NewPartialReloadSignal()) == nil, "reload-ok")
		} else { // full reload to generation 1
			verifPathGen["/db/gen1"] = 1
			nd.Assert(env.h.Reload(*NewFullReloadSignal("/db/gen1")) == nil, "reload-ok")
		}
		reloaded = true
		done <- struct{}{}
	}()
	<-done
	<-done
	nd.Assert(reloaded, "reload-completed")
	// every query from now on must be answered from generation 1
	for _, g := range verifResponseGens(ask(2)) {
		nd.Assert(g == 1, "no-previous-generation-after-completed-reload")
	}
	return env
}

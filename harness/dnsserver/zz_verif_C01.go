package dnsserver

// C01 — served answers are exactly what the data file declares (resolution part).
//
// A world is the zone z (SOA + NS, as a '.' line produces) plus K records chosen by the solver
// from a pool (addresses, TXT, CNAME, MX, a delegation, wildcards at two levels, located and
// untagged). The store is produced by the real encoders in one of the three layouts; a query
// (name from a lattice incl. non-existent, non-wild-safe and out-of-zone names, six types, a
// located or unlocated client) is answered by the real handler and compared with refdns, an
// independent statement of what the data file prescribes.

import (
	"context"
	"fmt"
	"sort"
	"strings"

	"github.com/facebookincubator/dns/dnsrocks/dnsdata"
	"github.com/facebookincubator/dns/dnsrocks/zzverif/nd"
	"github.com/miekg/dns"
)

//verif:include ../dnsdata/rdb/zz_verif_model.go
//verif:include ../db/zz_verif_world.go
//verif:subst H01_res github.com/facebookincubator/dns/dnsrocks/dnsserver.typeToStatsKey github.com/facebookincubator/dns/dnsrocks/dnsserver.VerifStatsKeyStub
//verif:subst H01_nested github.com/facebookincubator/dns/dnsrocks/dnsserver.typeToStatsKey github.com/facebookincubator/dns/dnsrocks/dnsserver.VerifStatsKeyStub
//verif:harness H01_res property=C01 native=no quick=k=1,layout=0,pool=24;k=1,layout=2,pool=24 thorough=k=1,layout=1,pool=24;k=2,layout=2,pool=6;k=2,layout=0,pool=6
//verif:harness H01_nested property=C01 native=no quick=layout=2,extra=0;layout=0,extra=0 thorough=layout=1,extra=0;layout=2,extra=1;layout=0,extra=1

func verifC01Pool() []dnsdata.VerifRec {
	return []dnsdata.VerifRec{
		{Kind: '+', Dom: []byte("c.z"), TTL: 300, IP: []byte{192, 0, 2, 10}, Weight: 1},
		{Kind: '+', Dom: []byte("c.z"), TTL: 301, IP: []byte{192, 0, 2, 11}, Weight: 1, Loc: verifL1},
		{Kind: '\'', Dom: []byte("c.z"), DefTTL: true, Txt: []byte("t-c")},
		{Kind: 'C', Dom: []byte("g.c.z"), TTL: 303, Target: []byte("c.z")},
		{Kind: '+', Dom: []byte("z"), Wild: true, TTL: 304, IP: []byte{192, 0, 2, 14}, Weight: 1},
		{Kind: '\'', Dom: []byte("z"), Wild: true, TTL: 305, Txt: []byte("w-z-L1"), Loc: verifL1},
		{Kind: '+', Dom: []byte("c.z"), Wild: true, TTL: 306, IP: []byte{192, 0, 2, 16}, Weight: 1},
		{Kind: '&', Dom: []byte("c.z"), DefTTL: true, Target: []byte("ns.c.z"), IP: []byte{192, 0, 2, 53}},
		{Kind: '@', Dom: []byte("s.z"), DefTTL: true, Target: []byte("mx.s.z"), Dist: 5, IP: []byte{192, 0, 2, 25}},
		{Kind: '\'', Dom: []byte("g.c.z"), TTL: 309, Txt: []byte("t-g")},
		{Kind: '+', Dom: []byte("s.z"), DefTTL: true, IP: []byte{192, 0, 2, 20}, Weight: 1},
		{Kind: '\'', Dom: []byte("c.z"), Wild: true, TTL: 311, Txt: []byte("w-c")},
		{Kind: 'C', Dom: []byte("z"), Wild: true, TTL: 312, Target: []byte("c.z")},
		{Kind: '+', Dom: []byte("z"), TTL: 313, IP: []byte{192, 0, 2, 1}, Weight: 1},
		{Kind: '.', Dom: []byte("s.z"), TTL: 314, Target: []byte("ns.s.z"), IP: []byte{192, 0, 2, 54}, Loc: verifL1},
		{Kind: '.', Dom: []byte("g.c.z"), DefTTL: true, Target: []byte("ns.g.c.z"), IP: []byte{192, 0, 2, 55}},
		{Kind: '&', Dom: []byte("z"), TTL: 316, Target: []byte("ns2.z"), IP: []byte{192, 0, 2, 3}, Loc: verifL1}, // a located NS at the apex next to the untagged SOA
		// the remaining record types, one each
		{Kind: '+', Dom: []byte("c.z"), TTL: 317, IP: []byte{0x20, 0x01, 0x0d, 0xb8, 0, 0, 0, 0, 0, 0, 0, 0, 0, 0, 0, 0x17}, Weight: 1},
		{Kind: 'S', Dom: []byte("v.z"), TTL: 318, Target: []byte("sv.v.z"), IP: []byte{192, 0, 2, 18}, Rtype: 8443, Dist: 7, Weight: 9},
		{Kind: '^', Dom: []byte("p.z"), DefTTL: true, Target: []byte("host.z")},
		{Kind: '=', Dom: []byte("e.z"), TTL: 320, IP: []byte{192, 0, 2, 33}},
		{Kind: ':', Dom: []byte("x.z"), TTL: 321, Rtype: 0xff01, Txt: []byte("ab")},
		{Kind: 'H', Dom: []byte("h.z"), TTL: 322, Target: []byte("t.z"), Dist: 1, Txt: []byte("alpn=h2")},
	}
}

// ---- refdns: the reference resolver ----

type refRR struct {
	owner string // lower-case, with trailing dot, without "*."
	wild  bool
	typ   uint16
	sig   string // type, ttl and rdata
	loc   []byte
}

func refName(dom []byte) string {
	if len(dom) == 0 {
		return "."
	}
	return strings.ToLower(string(dom)) + "."
}

// refWire: owner names are compared in lower-case wire form (length-prefixed labels), so that a
// label may contain any byte, dots included.
func refWire(dom []byte) string {
	var out []byte
	for _, l := range strings.Split(strings.ToLower(string(dom)), ".") {
		if len(l) > 0 {
			out = append(out, byte(len(l)))
			out = append(out, l...)
		}
	}
	return string(append(out, 0))
}

// refFlatten expands abstract records into the resource records a data file declares.
func refFlatten(recs []dnsdata.VerifRec) []refRR {
	var out []refRR
	addr := func(owner string, wild bool, ttl uint32, ip []byte, loc []byte) {
		if len(ip) == 4 {
			out = append(out, refRR{owner, wild, dns.TypeA, fmt.Sprintf("A %d %d.%d.%d.%d", ttl, ip[0], ip[1], ip[2], ip[3]), loc})
		}
		if len(ip) == 16 {
			out = append(out, refRR{owner, wild, dns.TypeAAAA, fmt.Sprintf("AAAA %d %x", ttl, ip), loc})
		}
	}
	for _, r := range recs {
		o := refWire(r.Dom)
		if r.DefTTL {
			// tinydns-data defaults: 259200 for name-server lines (and their glue), 86400 otherwise
			r.TTL = 86400
			if r.Kind == '&' || r.Kind == '.' {
				r.TTL = 259200
			}
		}
		switch r.Kind {
		case 'Z':
			out = append(out, refRR{o, false, dns.TypeSOA, fmt.Sprintf("SOA %d", r.TTL), r.Loc})
		case '.':
			// one line declares the SOA (tinydns-data: TTL 2560 whatever the line's non-zero
			// TTL), the NS and the address of the name server (the line's TTL), all with the
			// line's location
			out = append(out, refRR{o, false, dns.TypeSOA, "SOA 2560", r.Loc})
			out = append(out, refRR{o, false, dns.TypeNS, fmt.Sprintf("NS %d %s", r.TTL, refName(r.Target)), r.Loc})
			addr(refWire(r.Target), false, r.TTL, r.IP, r.Loc)
		case '&':
			out = append(out, refRR{o, false, dns.TypeNS, fmt.Sprintf("NS %d %s", r.TTL, refName(r.Target)), r.Loc})
			addr(refWire(r.Target), false, r.TTL, r.IP, r.Loc)
		case '+':
			addr(o, r.Wild, r.TTL, r.IP, r.Loc)
		case 'S':
			out = append(out, refRR{o, false, dns.TypeSRV, fmt.Sprintf("SRV %d %d %d %d %s", r.TTL, r.Dist, r.Weight, r.Rtype, refName(r.Target)), r.Loc})
			addr(refWire(r.Target), false, r.TTL, r.IP, r.Loc)
		case '^':
			out = append(out, refRR{o, false, dns.TypePTR, fmt.Sprintf("PTR %d %s", r.TTL, refName(r.Target)), r.Loc})
		case '=':
			addr(o, r.Wild, r.TTL, r.IP, r.Loc)
			rev := fmt.Sprintf("%d.%d.%d.%d.in-addr.arpa", r.IP[3], r.IP[2], r.IP[1], r.IP[0])
			out = append(out, refRR{refWire([]byte(rev)), false, dns.TypePTR, fmt.Sprintf("PTR %d %s", r.TTL, refName(r.Dom)), r.Loc})
		case ':':
			out = append(out, refRR{o, false, r.Rtype, fmt.Sprintf("TYPE%d %d %x", r.Rtype, r.TTL, r.Txt), r.Loc})
		case 'H':
			out = append(out, refRR{o, r.Wild, dns.TypeHTTPS, fmt.Sprintf("HTTPS %d %d %s %s", r.TTL, r.Dist, refName(r.Target), r.Txt), r.Loc})
		case 'C':
			out = append(out, refRR{o, r.Wild, dns.TypeCNAME, fmt.Sprintf("CNAME %d %s", r.TTL, refName(r.Target)), r.Loc})
		case '\'':
			out = append(out, refRR{o, r.Wild, dns.TypeTXT, fmt.Sprintf("TXT %d %s", r.TTL, r.Txt), r.Loc})
		case '@':
			out = append(out, refRR{o, false, dns.TypeMX, fmt.Sprintf("MX %d %d %s", r.TTL, r.Dist, refName(r.Target)), r.Loc})
			addr(refWire(r.Target), false, r.TTL, r.IP, r.Loc)
		}
	}
	return out
}

func refVisible(r refRR, clientLoc []byte) bool {
	if len(r.loc) != 2 || (r.loc[0] == 0 && r.loc[1] == 0) {
		return true
	}
	return len(clientLoc) == 2 && r.loc[0] == clientLoc[0] && r.loc[1] == clientLoc[1]
}

const refRoot = "\x00"

func refParent(name string) string {
	if name == refRoot {
		return refRoot
	}
	return name[1+int(name[0]):]
}

func refFirstLabel(name string) string {
	return name[1 : 1+int(name[0])]
}

func refWildSafe(label string) bool {
	for i := 0; i < len(label); i++ {
		c := label[i]
		if !(c >= 'a' && c <= 'z' || c >= '0' && c <= '9' || c == '-' || c == '_') {
			return false
		}
	}
	return true
}

type refAnswer struct {
	refused  bool
	aa       bool
	nxdomain bool
	answer   []string // signatures (multiset) — for weighted names: candidates, one of which is served
	weighted bool
	soa      bool     // SOA of the zone in the authority section
	ns       []string // NS signatures in the authority section (referral)
}

// refdns: what the data file prescribes for (qname, qtype) and a client at clientLoc.
// qname is in lower-case wire form.
func refdns(rrs []refRR, qname string, qtype uint16, clientLoc []byte) refAnswer {
	var res refAnswer
	has := func(name string, typ uint16) bool {
		for _, r := range rrs {
			if !r.wild && r.owner == name && r.typ == typ && refVisible(r, clientLoc) {
				return true
			}
		}
		return false
	}
	// zone cut: the closest enclosing name with a visible NS
	cut, found := qname, false
	for {
		if has(cut, dns.TypeNS) {
			found = true
			break
		}
		if cut == refRoot {
			break
		}
		cut = refParent(cut)
	}
	if !found {
		res.refused = true
		return res
	}
	if !has(cut, dns.TypeSOA) {
		// delegation: referral
		for _, r := range rrs {
			if !r.wild && r.owner == cut && r.typ == dns.TypeNS && refVisible(r, clientLoc) {
				res.ns = append(res.ns, r.sig)
			}
		}
		return res
	}
	res.aa = true
	// rows at the name itself, then wildcard rows of enclosing names up to the cut
	level, wild, foundRows := qname, false, false
	for {
		for _, r := range rrs {
			if r.owner == level && r.wild == wild && refVisible(r, clientLoc) {
				foundRows = true
				if r.typ == qtype || r.typ == dns.TypeCNAME {
					res.answer = append(res.answer, r.sig)
				}
			}
		}
		if foundRows || level == cut || level == refRoot || !refWildSafe(refFirstLabel(level)) {
			break
		}
		level, wild = refParent(level), true
	}
	nA := 0
	for _, s := range res.answer {
		if strings.HasPrefix(s, "A ") {
			nA++
		}
	}
	res.weighted = nA > 1
	if len(res.answer) == 0 {
		res.soa = true
		res.nxdomain = !foundRows
	}
	return res
}

func rrSig(rr dns.RR) string {
	h := rr.Header()
	switch x := rr.(type) {
	case *dns.A:
		return fmt.Sprintf("A %d %s", h.Ttl, x.A.String())
	case *dns.TXT:
		return fmt.Sprintf("TXT %d %s", h.Ttl, strings.Join(x.Txt, ""))
	case *dns.CNAME:
		return fmt.Sprintf("CNAME %d %s", h.Ttl, x.Target)
	case *dns.NS:
		return fmt.Sprintf("NS %d %s", h.Ttl, x.Ns)
	case *dns.MX:
		return fmt.Sprintf("MX %d %d %s", h.Ttl, x.Preference, x.Mx)
	case *dns.SOA:
		return fmt.Sprintf("SOA %d", h.Ttl)
	case *dns.AAAA:
		return fmt.Sprintf("AAAA %d %x", h.Ttl, []byte(x.AAAA.To16()))
	case *dns.SRV:
		return fmt.Sprintf("SRV %d %d %d %d %s", h.Ttl, x.Priority, x.Weight, x.Port, x.Target)
	case *dns.PTR:
		return fmt.Sprintf("PTR %d %s", h.Ttl, x.Ptr)
	case *dns.RFC3597:
		return fmt.Sprintf("TYPE%d %d %s", h.Rrtype, h.Ttl, x.Rdata)
	case *dns.HTTPS:
		ps := ""
		for _, v := range x.Value {
			ps += v.Key().String() + "=" + v.String()
		}
		return fmt.Sprintf("HTTPS %d %d %s %s", h.Ttl, x.Priority, x.Target, ps)
	}
	return fmt.Sprintf("TYPE%d %d", h.Rrtype, h.Ttl)
}

func sameStrings(a, b []string) bool {
	if len(a) != len(b) {
		return false
	}
	x, y := append([]string{}, a...), append([]string{}, b...)
	sort.Strings(x)
	sort.Strings(y)
	for i := range x {
		if x[i] != y[i] {
			return false
		}
	}
	return true
}

// query names in wire form; a '?' byte is an arbitrary byte chosen by the solver (so the name may
// or may not coincide with a declared owner, may differ in case only, may be non-wild-safe, and
// may need escaping in presentation form).
var verifC01Names = []string{
	"\x01z\x00", "\x01?\x01z\x00", "\x01?\x01c\x01z\x00", "\x01?\x01g\x01c\x01z\x00", "\x01g\x01?\x01z\x00",
	"\x02n?\x01z\x00", "\x01?\x01Z\x00", "\x01?\x00",
}

func H01_res() {
	k, layout := nd.Param("k"), nd.Param("layout")
	pool := verifC01Pool()
	// every record goes through its data-file line and the real text parser
	dnsdata.VerifViaText = true
	recs := []dnsdata.VerifRec{
		{Kind: '.', Dom: []byte("z"), TTL: 2560, Target: []byte("ns.z"), IP: []byte{192, 0, 2, 2}},
	}
	// bound: with k > 1 the records come from the first `pool` entries (addresses, TXT, CNAME,
	// the delegation, the wildcards at both levels, MX)
	np := nd.Param("pool")
	if np > len(pool) {
		np = len(pool)
	}
	for i := 0; i < k; i++ {
		recs = append(recs, pool[nd.Choice(np)])
	}
	verifC01Run(recs, layout)
}

// H01_nested: a zone inside a zone (g.c.z has its own SOA) below wildcards of the outer zone:
// names that do not exist in the inner zone must not be answered from the outer zone's wildcards.
func H01_nested() {
	layout := nd.Param("layout")
	dnsdata.VerifViaText = true
	pool := verifC01Pool()
	recs := []dnsdata.VerifRec{
		{Kind: '.', Dom: []byte("z"), TTL: 2560, Target: []byte("ns.z"), IP: []byte{192, 0, 2, 2}},
		pool[15], // '.' g.c.z
		pool[6],  // +*.c.z
		pool[5],  // '*.z located TXT
		pool[11], // '*.c.z TXT
	}
	if nd.Param("extra") == 1 {
		recs = append(recs, pool[nd.Choice(len(pool))])
	}
	verifC01Run(recs, layout)
}

func verifC01Run(recs []dnsdata.VerifRec, layout int) {
	recsWithMaps := append(append([]dnsdata.VerifRec{}, recs...), verifMaps()...)
	env := verifRecordsHandler(recsWithMaps, layout, CacheConfig{})

	wire := []byte(verifC01Names[nd.Choice(len(verifC01Names))])
	lower := make([]byte, len(wire))
	for i := range wire {
		if wire[i] == '?' {
			wire[i] = nd.Byte()
		}
		lower[i] = wire[i]
		if lower[i] >= 'A' && lower[i] <= 'Z' {
			lower[i] += 'a' - 'A'
		}
	}
	name, _, err := dns.UnpackDomainName(wire, 0)
	nd.Assert(err == nil, "name-ok")
	// any query type except the two with resolution rules of their own (ANY: every type
	// matches; DS: answered from the parent side of a cut)
	qtype := nd.Uint16()
	nd.Assume(qtype != dns.TypeANY)
	nd.Assume(qtype != dns.TypeDS)
	// resolver address classes: 10/8 is location L1, 11/8 is L2 in the resolver map of z and
	// *.z, 12/8 has none (bound: the address reaches the handler as text, so it stays concrete)
	ci := nd.Choice(3)
	clientLoc := [][]byte{verifL1, verifL2, nil}[ci]

	q := new(dns.Msg)
	q.Id = nd.Uint16()
	q.Question = []dns.Question{{Name: name, Qtype: qtype, Qclass: dns.ClassINET}}
	w := &verifWriter{remote: verifClientIPs[ci]}
	_, _ = env.h.ServeDNSWithRCODE(context.Background(), w, q)
	nd.Assert(len(w.written) == 1, "one-reply")
	resp := w.written[0]

	want := refdns(refFlatten(recs), string(lower), qtype, clientLoc)
	if want.refused {
		nd.Assert(resp.Rcode == dns.RcodeRefused, "refused-outside-every-zone")
		return
	}
	nd.Assert(resp.Rcode != dns.RcodeRefused, "not-refused-inside-a-zone")
	nd.Assert(resp.Authoritative == want.aa, "authoritative-iff-zone-has-soa-at-the-cut")
	var ans, auth []string
	for _, rr := range resp.Answer {
		ans = append(ans, rrSig(rr))
		nd.Assert(strings.EqualFold(rr.Header().Name, name), "answer-owner-is-the-query-name")
	}
	for _, rr := range resp.Ns {
		auth = append(auth, rrSig(rr))
	}
	if !want.aa {
		nd.Assert(resp.Rcode == dns.RcodeSuccess && len(ans) == 0, "referral-has-no-answer")
		nd.Assert(sameStrings(auth, want.ns), "referral-lists-the-delegation-ns-set")
		return
	}
	if want.nxdomain {
		nd.Assert(resp.Rcode == dns.RcodeNameError, "nxdomain-iff-nothing-at-name-nor-covering-wildcard")
	} else {
		nd.Assert(resp.Rcode == dns.RcodeSuccess, "noerror-when-the-name-or-a-wildcard-has-records")
	}
	if want.weighted {
		// several addresses: exactly one is served (default max answer), and it is a declared one
		nA := 0
		for _, s := range ans {
			if strings.HasPrefix(s, "A ") {
				nA++
				okc := false
				for _, c := range want.answer {
					okc = okc || c == s
				}
				nd.Assert(okc, "served-address-is-declared")
			}
		}
		nd.Assert(nA == 1, "one-address-served")
	} else {
		nd.Assert(sameStrings(ans, want.answer), "answer-is-exactly-the-declared-records")
	}
	if want.soa {
		nd.Assert(len(auth) == 1 && strings.HasPrefix(auth[0], "SOA "), "empty-authoritative-answer-carries-the-soa")
	} else {
		nd.Assert(len(auth) == 0, "no-authority-section-with-an-answer")
	}
}

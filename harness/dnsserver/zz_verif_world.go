package dnsserver

// Handler world: an FBDNSDB wired to a model store (through the real drivers), recording
// Stats / Logger / ResponseWriter, and a query builder producing *dns.Msg values that satisfy
// the post-condition of dns.Msg.Unpack.

import (
	"crypto/tls"
	"net"

	"github.com/facebookincubator/dns/dnsrocks/db"
	"github.com/facebookincubator/dns/dnsrocks/dnsdata"
	"github.com/facebookincubator/dns/dnsrocks/zzverif/nd"

	"github.com/coredns/coredns/request"
	"github.com/miekg/dns"
)

// ---- recording environment ----

type verifStats struct {
	counters map[string]int64
	samples  int
}

func newVerifStats() *verifStats { return &verifStats{counters: map[string]int64{}} }

func (s *verifStats) ResetCounterTo(key string, value int64)     { s.counters[key] = value }
func (s *verifStats) ResetCounter(key string)                    { s.counters[key] = 0 }
func (s *verifStats) IncrementCounterBy(key string, value int64) { s.counters[key] += value }
func (s *verifStats) IncrementCounter(key string) {
	s.counters[key]++
	if verifYieldAtStats {
		nd.Yield() // a pre-emption point between two steps of the handler (C14 pre=1)
	}
}

// verifYieldAtStats turns every counter increment into a pre-emption point.
var verifYieldAtStats bool
func (s *verifStats) AddSample(key string, value int64)          { s.samples++ }

type verifLogger struct {
	logged []*dns.Msg
	failed int
}

func (l *verifLogger) Log(state request.Request, r *dns.Msg, ecs *dns.EDNS0_SUBNET) {
	l.logged = append(l.logged, r)
}
func (l *verifLogger) LogFailed(state request.Request, r *dns.Msg, ecs *dns.EDNS0_SUBNET) {
	l.failed++
}

type verifWriter struct {
	tcp     bool
	remote  net.IP
	written []*dns.Msg
	raw     int
}

func (w *verifWriter) LocalAddr() net.Addr {
	if w.tcp {
		return &net.TCPAddr{IP: net.IPv4(127, 0, 0, 1), Port: 53}
	}
	return &net.UDPAddr{IP: net.IPv4(127, 0, 0, 1), Port: 53}
}
func (w *verifWriter) RemoteAddr() net.Addr {
	if w.tcp {
		return &net.TCPAddr{IP: w.remote, Port: 40212}
	}
	return &net.UDPAddr{IP: w.remote, Port: 40212}
}
func (w *verifWriter) WriteMsg(m *dns.Msg) error { w.written = append(w.written, m); return nil }
func (w *verifWriter) Write(b []byte) (int, error) {
	w.raw++
	return len(b), nil
}
func (w *verifWriter) Close() error        { return nil }
func (w *verifWriter) TsigStatus() error   { return nil }
func (w *verifWriter) TsigTimersOnly(bool) {}
func (w *verifWriter) Hijack()             {}

// ConnectionState: miekg's own response writer implements dns.ConnectionStater; plain UDP/TCP has no TLS state.
func (w *verifWriter) ConnectionState() *tls.ConnectionState { return nil }

// ---- worlds ----

var (
	verifL1 = []byte{0, 'a'}
	verifL2 = []byte{0, 'b'}
	verifMapM = [2]byte{0, 'm'}
	verifMapE = [2]byte{0, 'e'}
)

func v4in6(a, b, c, d byte) []byte {
	return []byte{0, 0, 0, 0, 0, 0, 0, 0, 0, 0, 0xff, 0xff, a, b, c, d}
}

// verifMaps: resolver map m and ECS map e for z and *.z; clients 10/8 -> L1, 11/8 -> L2;
// ECS 20/8 -> L1, 2001:db8::/32 -> L2.
func verifMaps() []dnsdata.VerifRec {
	return []dnsdata.VerifRec{
		{Kind: 'M', Dom: []byte("z"), Lmap: verifMapM},
		{Kind: 'M', Dom: []byte("z"), Wild: true, Lmap: verifMapM},
		{Kind: '8', Dom: []byte("z"), Lmap: verifMapE},
		{Kind: '8', Dom: []byte("z"), Wild: true, Lmap: verifMapE},
		{Kind: '%', Lmap: verifMapM, IP: v4in6(10, 0, 0, 0), Ones: 104, Loc: verifL1},
		{Kind: '%', Lmap: verifMapM, IP: v4in6(11, 0, 0, 0), Ones: 104, Loc: verifL2},
		{Kind: '%', Lmap: verifMapE, IP: v4in6(20, 0, 0, 0), Ones: 104, Loc: verifL1},
		{Kind: '%', Lmap: verifMapE, IP: []byte{0x20, 0x01, 0x0d, 0xb8, 0, 0, 0, 0, 0, 0, 0, 0, 0, 0, 0, 0}, Ones: 32, Loc: verifL2},
	}
}

// verifZoneWorld: one authoritative zone z. with a delegation, a wildcard, a CNAME, located
// and untagged addresses.
func verifZoneWorld() []dnsdata.VerifRec {
	recs := []dnsdata.VerifRec{
		{Kind: 'Z', Dom: []byte("z"), TTL: 2560, Target: []byte("ns.z")},
		{Kind: '&', Dom: []byte("z"), TTL: 259200, Target: []byte("ns.z"), IP: []byte{192, 0, 2, 1}},
		{Kind: '&', Dom: []byte("z"), TTL: 259200, Target: []byte("ns2.z"), IP: []byte{192, 0, 2, 2}, Loc: verifL1}, // an NS only clients of L1 see, next to the untagged SOA
		{Kind: '+', Dom: []byte("c.z"), TTL: 300, IP: []byte{192, 0, 2, 10}, Weight: 1},
		{Kind: '+', Dom: []byte("c.z"), TTL: 301, IP: []byte{0x20, 0x01, 0x0d, 0xb8, 0, 0, 0, 0, 0, 0, 0, 0, 0, 0, 0, 0x10}, Weight: 1},
		{Kind: '\'', Dom: []byte("z"), Wild: true, TTL: 302, Txt: []byte("w")},
		{Kind: '&', Dom: []byte("d.z"), TTL: 303, Target: []byte("ns.d.z"), IP: []byte{192, 0, 2, 53}},
		{Kind: 'C', Dom: []byte("g.c.z"), TTL: 304, Target: []byte("c.z")},
		{Kind: '+', Dom: []byte("l.z"), TTL: 305, IP: []byte{192, 0, 2, 77}, Weight: 1, Loc: verifL1},
		{Kind: '+', Dom: []byte("l.z"), TTL: 306, IP: []byte{192, 0, 2, 78}, Weight: 1},
		{Kind: '@', Dom: []byte("m.z"), TTL: 307, Target: []byte("mx.z"), Dist: 10, IP: []byte{192, 0, 2, 25}},
		{Kind: '\'', Dom: []byte("p.z"), TTL: 308, Txt: []byte("for-L1"), Loc: verifL1},
		{Kind: '\'', Dom: []byte("p.z"), TTL: 309, Txt: []byte("for-all")},
	}
	return append(recs, verifMaps()...)
}

func verifRootWorld() []dnsdata.VerifRec {
	return []dnsdata.VerifRec{
		{Kind: 'Z', Dom: []byte(""), TTL: 2560, Target: []byte("ns.root")},
		{Kind: '&', Dom: []byte(""), TTL: 259200, Target: []byte("ns.root"), IP: []byte{192, 0, 2, 1}},
		{Kind: '+', Dom: []byte("a"), TTL: 300, IP: []byte{192, 0, 2, 10}, Weight: 1},
		{Kind: '&', Dom: []byte("d"), TTL: 303, Target: []byte("ns.d"), IP: []byte{192, 0, 2, 53}},
	}
}

func verifRootDelegationWorld() []dnsdata.VerifRec {
	return []dnsdata.VerifRec{
		{Kind: '&', Dom: []byte(""), TTL: 259200, Target: []byte("ns.root"), IP: []byte{192, 0, 2, 1}},
	}
}

func verifWorldRecords(kind int) []dnsdata.VerifRec {
	switch kind {
	case 0:
		return verifZoneWorld()
	case 1:
		return verifRootWorld()
	case 2:
		return verifRootDelegationWorld()
	case 4:
		return verifLocatedZoneWorld()
	}
	return nil
}

// verifLocatedZoneWorld: a zone every record of which is tagged with location L1 (clients of
// 10/8), nothing untagged: its apex is the first resource-record key of the store.
func verifLocatedZoneWorld() []dnsdata.VerifRec {
	return []dnsdata.VerifRec{
		{Kind: 'Z', Dom: []byte("b"), TTL: 2560, Target: []byte("ns.b"), Loc: verifL1},
		{Kind: '&', Dom: []byte("b"), TTL: 259200, Target: []byte("ns.b"), IP: []byte{192, 0, 2, 1}, Loc: verifL1},
		{Kind: '+', Dom: []byte("b"), TTL: 300, IP: []byte{192, 0, 2, 10}, Weight: 1, Loc: verifL1},
		{Kind: '+', Dom: []byte("c.b"), TTL: 301, IP: []byte{192, 0, 2, 11}, Weight: 1, Loc: verifL1},
		{Kind: 'M', Dom: []byte("b"), Lmap: verifMapM},
		{Kind: 'M', Dom: []byte("b"), Wild: true, Lmap: verifMapM},
		{Kind: '%', Lmap: verifMapM, IP: v4in6(10, 0, 0, 0), Ones: 104, Loc: verifL1},
		{Kind: '%', Lmap: verifMapM, IP: v4in6(11, 0, 0, 0), Ones: 104, Loc: verifL2},
	}
}

type verifEnv struct {
	h      *FBDNSDB
	stats  *verifStats
	logger *verifLogger
	dbi    db.DBI
}

// verifNewHandler wires an FBDNSDB over the given back end.
func verifNewHandler(dbi db.DBI, cache CacheConfig) *verifEnv {
	st, lg := newVerifStats(), &verifLogger{}
	h, err := NewFBDNSDBBasic(HandlerConfig{}, DBConfig{Path: "/db/gen0", Driver: "model", ReloadTimeout: 1e9}, cache, lg, st)
	nd.Assert(err == nil, "handler-created")
	h.dnsdb = db.VerifNewDB(dbi)
	return &verifEnv{h: h, stats: st, logger: lg, dbi: dbi}
}

func verifWorldHandler(world, layout int, cache CacheConfig) *verifEnv {
	return verifRecordsHandler(verifWorldRecords(world), layout, cache)
}

func verifRecordsHandler(recs []dnsdata.VerifRec, layout int, cache CacheConfig) *verifEnv {
	dbi, err := db.VerifBuildStore(recs, layout)
	nd.Assert(err == nil, "store-built")
	return verifNewHandler(dbi, cache)
}

// ---- query builder ----

var verifQtypes = []uint16{dns.TypeA, dns.TypeAAAA, dns.TypeNS, dns.TypeSOA, dns.TypeCNAME, dns.TypeTXT, dns.TypeMX, dns.TypeDS, dns.TypeANY, dns.TypeHTTPS, 0xff42}

// verifQueryNames: wire-format names per world; a '?' byte is replaced by an arbitrary byte.
var verifQueryNames = [][]string{
	{"\x01z\x00", "\x01c\x01z\x00", "\x01?\x01z\x00", "\x01d\x01z\x00", "\x01x\x01d\x01z\x00", "\x01g\x01c\x01z\x00", "\x01l\x01z\x00", "\x01m\x01z\x00", "\x01?\x01c\x01z\x00", "\x01y\x00", "\x00"},
	{"\x00", "\x01a\x00", "\x01?\x00", "\x01d\x00", "\x01x\x01d\x00"},
	{"\x00", "\x01a\x00", "\x01?\x00"},
	{"\x00", "\x01z\x00", "\x01?\x01z\x00"},
	{"\x01b\x00", "\x01?\x01b\x00", "\x01?\x00"},
}

var verifLabelBytes = []byte{'q', 'Q', '7', '-', '_', '*', '.', '\\', '@', ' ', 0x00, 0x7f, 0xff}

// verifQuestionName picks a name for the world and returns its presentation form exactly as
// dns.Msg.Unpack would produce it.
func verifQuestionName(world int) string {
	names := verifQueryNames[world]
	w := []byte(names[nd.Choice(len(names))])
	for i := range w {
		if w[i] == '?' {
			// bound: the free label byte comes from a pool of character classes (lower, upper,
			// digit, wild-safe punctuation, wildcard star, characters that need escaping,
			// control and high bytes) rather than all 256 values
			w[i] = verifLabelBytes[nd.Choice(len(verifLabelBytes))]
		}
	}
	s, _, err := dns.UnpackDomainName(w, 0)
	nd.Assume(err == nil)
	return s
}

type verifQueryOpts struct {
	edns     int // 0 none, 1 plain OPT, 2 OPT+ECS, 3 OPT+unknown option, 4 OPT+ECS+unknown, 5 OPT+unknown+ECS
	ecsFam   int // 0 (family 0), 1, 2
}

// verifBuildQuery builds a query message for name/qtype with symbolic header fields and the
// requested EDNS shape. Returns the message and its ECS option (nil if none).
func verifBuildQuery(name string, qtype uint16, o verifQueryOpts) (*dns.Msg, *dns.EDNS0_SUBNET) {
	m := new(dns.Msg)
	m.Id = nd.Uint16()
	m.RecursionDesired = nd.Bool()
	m.CheckingDisabled = nd.Bool()
	m.AuthenticatedData = nd.Bool()
	m.Opcode = int(nd.Byte() & 0xf)
	m.Question = []dns.Question{{Name: name, Qtype: qtype, Qclass: nd.Uint16()}}
	var ecs *dns.EDNS0_SUBNET
	if o.edns > 0 {
		opt := new(dns.OPT)
		opt.Hdr.Name = "."
		opt.Hdr.Rrtype = dns.TypeOPT
		opt.Hdr.Class = nd.Uint16() // advertised UDP size
		opt.Hdr.Ttl = nd.Uint32()   // extended rcode, version, DO and Z bits
		if o.edns == 2 || o.edns == 4 || o.edns == 5 {
			ecs = verifECS(o.ecsFam)
			opt.Option = append(opt.Option, ecs)
		}
		if o.edns == 3 || o.edns == 4 || o.edns == 5 {
			local := &dns.EDNS0_LOCAL{Code: 65001, Data: nd.Bytes(2)}
			if o.edns == 5 {
				// the unknown option precedes the client-subnet option
				opt.Option = append([]dns.EDNS0{local}, opt.Option...)
			} else {
				opt.Option = append(opt.Option, local)
			}
		}
		m.Extra = append(m.Extra, opt)
	}
	return m, ecs
}

// verifECS: an ECS option as EDNS0_SUBNET.unpack leaves it (family 0: netmask 0 and 0.0.0.0;
// family 1: netmask/scope <= 32, net.IPv4 address; family 2: netmask/scope <= 128, 16 bytes).
func verifECS(fam int) *dns.EDNS0_SUBNET {
	e := &dns.EDNS0_SUBNET{Code: dns.EDNS0SUBNET, Family: uint16(fam)}
	e.SourceScope = nd.Byte()
	switch fam {
	case 0:
		e.SourceNetmask = 0
		e.Address = net.IPv4(0, 0, 0, 0)
	case 1:
		e.SourceNetmask = nd.Byte()
		nd.Assume(nd.And(e.SourceNetmask <= 32, e.SourceScope <= 32))
		b := nd.Bytes(4)
		e.Address = net.IPv4(b[0], b[1], b[2], b[3])
	case 2:
		// bound: the source prefix length comes from a pool around the boundaries that matter
		// (0, byte boundaries, the declared /32, the default scope 48, full length); only the
		// first four address bytes are symbolic (the rest is zero)
		// second form: an IPv4-mapped address ::ffff:a.b.c.d with four symbolic bytes and a source
		// length around the mapped boundaries (96, the declared 96+8, byte boundaries, full length)
		nd.Assume(e.SourceScope <= 128)
		a := make(net.IP, 16)
		if nd.Bool() {
			pool := []uint8{0, 95, 96, 103, 104, 105, 120, 128}
			e.SourceNetmask = pool[nd.Choice(len(pool))]
			a[10], a[11] = 0xff, 0xff
			copy(a[12:], nd.Bytes(4))
		} else {
			pool := []uint8{0, 31, 32, 33, 48, 64, 128}
			e.SourceNetmask = pool[nd.Choice(len(pool))]
			copy(a, nd.Bytes(4))
		}
		e.Address = a
	}
	return e
}

var verifClientIPs = []net.IP{net.IPv4(10, 0, 0, 1), net.IPv4(11, 0, 0, 1), net.IPv4(12, 0, 0, 1), net.ParseIP("2001:db8::1")}

// verifClient: transport and resolver address of the client (bound: four combinations).
func verifClient() *verifWriter {
	k := nd.Choice(4)
	return &verifWriter{tcp: k == 1, remote: verifClientIPs[k]}
}

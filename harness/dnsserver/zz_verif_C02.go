package dnsserver

// C02 — storage back end and key layout never change an answer (end-to-end part): the same
// records compiled into the CDB layout, RocksDB v1 keys and RocksDB v2 keys by the real
// encoders, the same query from the same client through the real handler: the three responses
// are equal.

import (
	"context"

	"github.com/facebookincubator/dns/dnsrocks/zzverif/nd"
	"github.com/miekg/dns"
)

//verif:include ../dnsdata/rdb/zz_verif_model.go
//verif:include ../db/zz_verif_world.go
//verif:harness H02_e2e property=C02 native=no quick=world=0,edns=0;world=1,edns=0;world=2,edns=2;world=4,edns=0 thorough=world=0,edns=2;world=1,edns=2;world=2,edns=0;world=3,edns=1

func H02_e2e() {
	world := nd.Param("world")
	envs := []*verifEnv{
		verifWorldHandler(world, 0, CacheConfig{}),
		verifWorldHandler(world, 1, CacheConfig{}),
		verifWorldHandler(world, 2, CacheConfig{}),
	}
	name := verifQuestionName(world)
	qtype := verifQtypes[nd.Choice(len(verifQtypes))]
	k := nd.Choice(4)
	edns := nd.Param("edns")
	id, qclass := nd.Uint16(), nd.Uint16()
	var ecsAddr []byte
	var ecsMask uint8
	if edns == 2 {
		ecsAddr = nd.Bytes(4)
		ecsMask = nd.Byte()
		nd.Assume(ecsMask <= 32)
	}
	var resps []*dns.Msg
	for _, env := range envs {
		q := new(dns.Msg)
		q.Id = id
		q.Question = []dns.Question{{Name: name, Qtype: qtype, Qclass: qclass}}
		if edns > 0 {
			o := &dns.OPT{Hdr: dns.RR_Header{Name: ".", Rrtype: dns.TypeOPT, Class: 1232}}
			if edns == 2 {
				o.Option = append(o.Option, &dns.EDNS0_SUBNET{Code: dns.EDNS0SUBNET, Family: 1, SourceNetmask: ecsMask,
					Address: []byte{0, 0, 0, 0, 0, 0, 0, 0, 0, 0, 0xff, 0xff, ecsAddr[0], ecsAddr[1], ecsAddr[2], ecsAddr[3]}})
			}
			q.Extra = append(q.Extra, o)
		}
		w := &verifWriter{tcp: k == 1, remote: verifClientIPs[k]}
		_, _ = env.h.ServeDNSWithRCODE(context.Background(), w, q)
		nd.Assert(len(w.written) <= 1, "at-most-one-reply")
		if len(w.written) == 1 {
			resps = append(resps, w.written[0])
		} else {
			resps = append(resps, nil)
		}
	}
	names := []string{"cdb", "rocksdb-v1", "rocksdb-v2"}
	for i := 1; i < 3; i++ {
		nd.Assert((resps[0] == nil) == (resps[i] == nil), "reply-or-not:"+names[0]+"-vs-"+names[i])
		if resps[0] != nil && resps[i] != nil {
			verifSameResponse(resps[0], resps[i], names[0]+"-vs-"+names[i])
		}
	}
}

package dnsserver

// C06 — no database back end is used after close, closed twice, or leaked.
//
// The storage back end is a life-cycle recorder. Its Reload returns — chosen by the solver —
// a new recorder, itself, or an error; validation keys may be missing on the new or the same
// back end; the reload timeout (a timer goroutine) may fire before, after or never relative to
// the reload goroutine of db.Reload. A sequence of operations chosen by the solver drives the
// real FBDNSDB.AcquireReader / reader use / reader Close / FBDNSDB.Reload / FBDNSDB.Close.

import (
	"errors"
	"net"
	"strings"

	"github.com/facebookincubator/dns/dnsrocks/db"
	"github.com/facebookincubator/dns/dnsrocks/zzverif/nd"
)

//verif:harness H06_life property=C06 native=no quick=ops=3,readers=1,sched=0,ctl=0,sorted=0;ops=4,readers=2,sched=0,ctl=0,sorted=0;ops=2,readers=1,sched=1,ctl=0,sorted=0;ops=3,readers=1,sched=0,ctl=1,sorted=0;ops=3,readers=1,sched=0,ctl=0,sorted=1 thorough=ops=2,readers=1,sched=2,ctl=0,sorted=0;ops=4,readers=3,sched=0,ctl=0,sorted=0;ops=4,readers=2,sched=0,ctl=1,sorted=0;ops=4,readers=2,sched=0,ctl=0,sorted=1
//verif:subst H06_life os.RemoveAll github.com/facebookincubator/dns/dnsrocks/dnsserver.verifRemoveAll

type verifLifeCtx struct{}

func (verifLifeCtx) Reset() {}

type verifLifeDBI struct {
	id             int
	closed         bool
	closes         int
	usesAfterClose int
	key            byte // the one key this back end holds (solver-chosen): validation looks a key up
}

var verifBackends []*verifLifeDBI
var verifEvents []string

func verifEv(b *verifLifeDBI, what string) {
	verifEvents = append(verifEvents, string(rune('A'+b.id))+"."+what)
}

func verifNewBackend() *verifLifeDBI {
	b := &verifLifeDBI{id: len(verifBackends), key: nd.Byte()}
	verifBackends = append(verifBackends, b)
	return b
}

func (b *verifLifeDBI) use() {
	nd.Yield() // every call into the storage back end is a pre-emption point
	if b.closed {
		b.usesAfterClose++
		verifEv(b, "USE-AFTER-CLOSE")
	}
}

func (b *verifLifeDBI) NewContext() db.Context { b.use(); return verifLifeCtx{} }
func (b *verifLifeDBI) Find(key []byte, c db.Context) ([]byte, error) {
	b.use()
	return nil, nil
}
func (b *verifLifeDBI) ForEach(key []byte, f func(value []byte) error, c db.Context) error {
	b.use()
	// whether the validation key is present is the solver's decision (key bytes are symbolic)
	if len(key) == 1 && key[0] == b.key {
		return f([]byte{1})
	}
	return nil
}
func (b *verifLifeDBI) FreeContext(db.Context) { b.use() }
func (b *verifLifeDBI) FindMap(domain, mtype []byte, c db.Context) ([]byte, error) {
	b.use()
	return nil, nil
}
func (b *verifLifeDBI) GetLocationByMap(ipnet *net.IPNet, mapID []byte, c db.Context) ([]byte, uint8, error) {
	b.use()
	return nil, 0, nil
}
func (b *verifLifeDBI) Close() error {
	nd.Yield()
	verifEv(b, "Close")
	b.closes++
	b.closed = true
	return nil
}

var errVerifOpen = errors.New("verif: cannot open database")

// Reload: the solver picks the outcome.
func (b *verifLifeDBI) Reload(path string) (db.DBI, error) {
	// recorded finding: the goroutine of a reload that timed out may call Reload on the old
	// back end after a later reload has replaced and closed it
	verifEv(b, "Reload-called")
	nd.Yield() // the call takes time: other goroutines may run while it is in progress
	nd.Known("C06-late-reload-on-closed-backend", b.closed)
	if b.closed {
		b.usesAfterClose++
		verifEv(b, "USE-AFTER-CLOSE(in-Reload)")
	}
	switch nd.Choice(3) {
	case 0:
		verifEv(b, "Reload->new")
		return verifNewBackend(), nil // a new back end (it may or may not hold the validation key)
	case 1:
		verifEv(b, "Reload->same")
		return b, nil // the same back end (RocksDB catch-up)
	}
	verifEv(b, "Reload->error")
	return nil, errVerifOpen
}
func (b *verifLifeDBI) GetStats() map[string]int64           { b.use(); return nil }
// verifSortedBackends: the recorder offers a closest-key finder (as RocksDB with v2 keys does), so
// that readers are the sorted kind.
var verifSortedBackends bool

func (b *verifLifeDBI) ClosestKeyFinder() db.ClosestKeyFinder {
	if verifSortedBackends {
		return b
	}
	return nil
}

func (b *verifLifeDBI) FindClosestKey(key []byte, c db.Context) ([]byte, error) {
	b.use()
	return nil, nil
}

func verifCheckLifecycle(served *verifLifeDBI, shutdown bool, tag string) {
	nd.Observe("events", strings.Join(verifEvents, " "))
	nd.Observe("served", served.id)
	for _, b := range verifBackends {
		nd.Assert(b.usesAfterClose == 0, tag+":no-use-after-close")
		nd.Assert(b.closes <= 1, tag+":never-closed-twice")
		if shutdown {
			nd.Assert(b.closes == 1, tag+":every-backend-closed-after-shutdown")
		} else if b != served {
			nd.Assert(b.closes == 1, tag+":replaced-or-rejected-backend-closed-once-readers-gone")
		} else {
			nd.Assert(b.closes == 0, tag+":served-backend-stays-open")
		}
	}
}

//verif:harness H06_late property=C06 native=no quick=sched=2 thorough=sched=3

// H06_late: the scripted history "reload, reload" (both full) under schedule exploration: the
// place where a timed-out reload's goroutine can outlive the back end it works on.
func H06_late() {
	verifBackends, verifEvents = nil, nil
	env := verifNewHandler(verifNewBackend(), CacheConfig{})
	env.h.dbConfig.ValidationKey = []byte{nd.Byte()}
	nd.SchedExplore(nd.Param("sched"))
	_ = env.h.Reload(*NewFullReloadSignal("/db/one"))
	_ = env.h.Reload(*NewFullReloadSignal("/db/two"))
	nd.Quiesce()
	served := db.VerifDBI(env.h.dnsdb).(*verifLifeDBI)
	verifCheckLifecycle(served, false, "quiescent")
	env.h.Close()
	nd.Quiesce()
	verifCheckLifecycle(served, true, "shutdown")
}

// verifRemoveAll: removing the reload signal file from the control directory may fail
// (environment: arbitrary outcome).
func verifRemoveAll(path string) error {
	if nd.Bool() {
		return errors.New("verif: remove failed")
	}
	return nil
}

func H06_life() {
	ops, maxReaders := nd.Param("ops"), nd.Param("readers")
	verifBackends = nil
	verifEvents = nil
	verifSortedBackends = nd.Param("sorted") == 1
	first := verifNewBackend() // the served back end may itself lack the validation key
	env := verifNewHandler(first, CacheConfig{})
	env.h.dbConfig.ValidationKey = []byte{nd.Byte()}
	if nd.Param("ctl") == 1 {
		env.h.dbConfig.ControlPath = "/ctl" // reloads are signalled through files that Reload removes afterwards
	}
	if b := nd.Param("sched"); b > 0 {
		nd.SchedExplore(b)
	}
	var readers []db.Reader
	for i := 0; i < ops; i++ {
		switch nd.Choice(4) {
		case 0: // acquire
			if len(readers) < maxReaders {
				r, err := env.h.AcquireReader()
				nd.Assert(err == nil, "acquire-ok")
				readers = append(readers, r)
			}
		case 1: // use the oldest reader
			if len(readers) > 0 {
				_ = readers[0].ForEach([]byte("q"), func([]byte) error { return nil })
			}
		case 2: // release the oldest reader
			if len(readers) > 0 {
				readers[0].Close()
				readers = readers[1:]
			}
		case 3: // reload: full (another path) or partial (same path)
			sig := *NewPartialReloadSignal()
			if nd.Bool() {
				sig = *NewFullReloadSignal("/db/other")
			}
			verifEvents = append(verifEvents, "reload(")
			err := env.h.Reload(sig)
			if err != nil {
				verifEvents = append(verifEvents, ")=err:"+err.Error())
			} else {
				verifEvents = append(verifEvents, ")=ok")
			}
		}
	}
	// all readers are released, late reload goroutines finish
	for _, r := range readers {
		r.Close()
	}
	nd.Quiesce()
	served := db.VerifDBI(env.h.dnsdb).(*verifLifeDBI)
	verifCheckLifecycle(served, false, "quiescent")
	env.h.Close()
	nd.Quiesce()
	verifCheckLifecycle(served, true, "shutdown")
}

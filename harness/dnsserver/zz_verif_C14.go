package dnsserver

// C14 — serving and reloading concurrently is free of data races, deadlocks and crashes.
//
// Query goroutines, a reloader (partial and full reloads), the statistics reporter, the
// database watcher loop and shutdown run under the engine's scheduler with happens-before
// tracking: every load/store of a heap cell by the code under test is checked against the
// last conflicting access; synchronisation (mutexes, RWMutex, channels, WaitGroup, atomics,
// goroutine creation) creates the happens-before edges. The storage models are excluded from
// tracking (thread safety of RocksDB's C++ objects is its documented contract).

import (
	"context"

	"github.com/facebookincubator/dns/dnsrocks/db"
	"github.com/facebookincubator/dns/dnsrocks/dnsdata/rdb"
	"github.com/facebookincubator/dns/dnsrocks/zzverif/nd"
	"github.com/fsnotify/fsnotify"
	"github.com/miekg/dns"
)

//verif:include ../dnsdata/rdb/zz_verif_model.go
//verif:include ../db/zz_verif_world.go
//verif:harness H14_hb property=C14 native=no quick=layout=2,sched=0,watch=0,cache=0,pre=0;layout=0,sched=0,watch=0,cache=1,pre=0;layout=1,sched=0,watch=1,cache=1,pre=0;layout=2,sched=1,watch=0,cache=0,pre=1;layout=2,sched=1,watch=0,cache=0,pre=2;layout=1,sched=1,watch=0,cache=0,pre=3;layout=0,sched=1,watch=0,cache=1,pre=4 thorough=layout=1,sched=1,watch=0,cache=0,pre=2;layout=2,sched=1,watch=0,cache=0,pre=3;layout=2,sched=0,watch=1,cache=1,pre=0;layout=0,sched=0,watch=1,cache=0,pre=0;layout=1,sched=1,watch=0,cache=0,pre=1

func H14_hb() {
	verifLayout = nd.Param("layout")
	verifPathGen = map[string]int{"/db/gen0": 0}
	db.VerifOpen = verifOpenGen
	first, err := verifOpenGen("/db/gen0")
	nd.Assert(err == nil, "initial-open")
	cache := CacheConfig{}
	if nd.Param("cache") == 1 {
		cache = CacheConfig{Enabled: true, LRUSize: 4}
	}
	if nd.Param("pre") == 4 {
		cache.WRSTimeout = 5 // weighted answers are cached too (for five seconds)
	}
	env := verifNewHandler(first, cache)
	env.h.dbConfig.ReloadTimeout = 24 * 3600e9
	nd.RaceDetect()
	if b := nd.Param("sched"); b > 0 {
		nd.SchedExplore(b)
	}
	done := make(chan struct{}, 8)
	consumed := make(chan struct{}, 8)
	n := 0
	query := func(id uint16, name string, qtype uint16) {
		q := new(dns.Msg)
		q.Id = id
		q.Question = []dns.Question{{Name: name, Qtype: qtype, Qclass: dns.ClassINET}}
		w := &verifWriter{remote: verifClientIPs[2]}
		_, _ = env.h.ServeDNSWithRCODE(context.Background(), w, q)
		done <- struct{}{}
	}
	// one query of a named type and two of arbitrary unnamed (private-use) types: the per-type
	// bookkeeping of the handler is shared by all query goroutines
	u1, u2 := nd.Uint16(), nd.Uint16()
	nd.Assume(u1 >= 0xff00 && u1 < 0xffff)
	nd.Assume(u2 >= 0xff00 && u2 < 0xffff)
	tasks := []func(){
		func() { query(1, "m.z.", dns.TypeMX) },
		func() { query(2, "q.z.", u1) },
		func() { query(3, "m.z.", u2) },
		func() { // reloader: a partial and a full reload
			verifPathGen["/db/gen0"] = 1
			if m := db.VerifRocksModel(db.VerifDBI(env.h.dnsdb)); m != nil {
				snap, err := db.VerifBuildSnapshot(verifGenRecords(1), verifLayout == 2)
				nd.Assert(err == nil, "snapshot")
				m.Primary = db.VerifPrimaryOf(snap)
			}
			_ = env.h.Reload(*NewPartialReloadSignal())
			verifPathGen["/db/gen2"] = 2
			_ = env.h.Reload(*NewFullReloadSignal("/db/gen2"))
			done <- struct{}{}
		},
		func() { // statistics reporter
			env.h.ReportBackendStats()
			done <- struct{}{}
		},
	}
	rdb.VerifCrashOnUseAfterClose = true
	if p := nd.Param("pre"); p == 2 || p == 3 {
		// a query pre-empted inside a storage operation (it may hold a pooled iterator) while a
		// partial reload disables and re-enables the iterator pool
		tasks = []func(){tasks[1], func() {
			verifPathGen["/db/gen0"] = 1
			if m := db.VerifRocksModel(db.VerifDBI(env.h.dnsdb)); m != nil {
				snap, err := db.VerifBuildSnapshot(verifGenRecords(1), verifLayout == 2)
				nd.Assert(err == nil, "snapshot")
				m.Primary = db.VerifPrimaryOf(snap)
			}
			_ = env.h.Reload(*NewPartialReloadSignal())
			if nd.Param("pre") == 3 {
				// ... followed by a switch to another database: the back end the query still
				// holds must stay open until the query releases it
				verifPathGen["/db/gen2"] = 2
				_ = env.h.Reload(*NewFullReloadSignal("/db/gen2"))
			}
			done <- struct{}{}
		}}
	}
	if nd.Param("pre") == 4 {
		// two queries with an OPT record for a name whose answer is a weighted selection, the
		// response cache keeping such answers: one may fill the entry the other one reads
		wq := func(id uint16) {
			q := new(dns.Msg)
			q.Id = id
			q.Question = []dns.Question{{Name: "w.z.", Qtype: dns.TypeA, Qclass: dns.ClassINET}}
			q.Extra = append(q.Extra, &dns.OPT{Hdr: dns.RR_Header{Name: ".", Rrtype: dns.TypeOPT, Class: 1232}})
			w := &verifWriter{remote: verifClientIPs[2]}
			_, _ = env.h.ServeDNSWithRCODE(context.Background(), w, q)
			done <- struct{}{}
		}
		verifYieldAtStats = true
		tasks = []func(){func() { wq(1) }, func() { wq(2) }}
	}
	if nd.Param("pre") == 1 {
		// pre-emption shape: the three queries only, pre-empted between any two handler steps
		// that are separated by a counter increment (budget: sched pre-emptions)
		verifYieldAtStats = true
		tasks = tasks[:3]
	}
	// the goroutines are started in an order chosen by the solver (with sched=0 each runs until
	// it blocks, so the start order decides which generation and which code paths each one sees)
	for len(tasks) > 0 {
		k := nd.Choice(len(tasks))
		go tasks[k]()
		tasks = append(tasks[:k:k], tasks[k+1:]...)
		n++
	}
	if nd.Param("watch") == 1 {
		// the watcher loop, fed one event for the served path, and the reload-channel consumer
		w := &fsnotify.Watcher{Events: make(chan fsnotify.Event, 2), Errors: make(chan error, 1)}
		go func() {
			for s := range env.h.ReloadChan {
				_ = env.h.Reload(s)
				consumed <- struct{}{}
			}
		}()
		go func() {
			_ = env.h.watchDBAndReload(w)
			done <- struct{}{}
		}()
		n++
		w.Events <- fsnotify.Event{Name: "/db/gen0", Op: fsnotify.Write}
		w.Events <- fsnotify.Event{Name: "/db/gen2", Op: fsnotify.Write}
	}
	for i := 0; i < n-btoi(nd.Param("watch") == 1); i++ {
		<-done
	}
	if nd.Param("watch") == 1 {
		<-consumed // the watcher saw an event for the served path and the reload it asked for ran
	}
	env.h.Close() // closes done/ReloadChan: the watcher loop returns
	if nd.Param("watch") == 1 {
		<-done
	}
	nd.Quiesce()
}

func btoi(b bool) int {
	if b {
		return 1
	}
	return 0
}

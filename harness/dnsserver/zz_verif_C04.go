package dnsserver

// C04 — a client sees its own location's records plus untagged ones, nothing else.
//
// Two-run harness: the zone world plus foreign part A versus the zone world plus foreign part
// B. Foreign records carry a location X different from the client's and from "none", at names
// chosen by the solver among the lattice names (so that, with v2 keys, they become SeekForPrev
// neighbours of the keys the query reads); foreign subnets belong to a map the queried names do
// not use. The same query from the same client must get the same response on both.

import (
	"context"
	"net"

	"github.com/facebookincubator/dns/dnsrocks/dnsdata"
	"github.com/facebookincubator/dns/dnsrocks/zzverif/nd"
	"github.com/miekg/dns"
)

//verif:include ../dnsdata/rdb/zz_verif_model.go
//verif:include ../db/zz_verif_world.go
//verif:harness H04_diff2 property=C04 native=no quick=layout=2,fa=1,fb=0,text=0,ecs=0;layout=0,fa=1,fb=0,text=0,ecs=0;layout=2,fa=1,fb=0,text=1,ecs=0;layout=2,fa=1,fb=0,text=0,ecs=1 thorough=layout=0,fa=1,fb=0,text=0,ecs=1;layout=1,fa=1,fb=0,text=0,ecs=0;layout=0,fa=1,fb=0,text=1,ecs=0;layout=1,fa=1,fb=0,text=0,ecs=1

var verifForeignNames = []string{"z", "c.z", "d.z", "g.c.z", "l.z", "p.z", "q.z", "a.c.z", "0.z"}

// verifForeign returns n records tagged with location x (and one subnet of a foreign map).
func verifForeign(n int, x []byte) []dnsdata.VerifRec {
	var out []dnsdata.VerifRec
	for i := 0; i < n; i++ {
		name := []byte(verifForeignNames[nd.Choice(len(verifForeignNames))])
		wild := nd.Bool()
		kinds := 5
		if dnsdata.VerifViaText {
			kinds = 6 // the '.' line (SOA + NS + address in one) exists as text only
		}
		switch nd.Choice(kinds) {
		case 5:
			out = append(out, dnsdata.VerifRec{Kind: '.', Dom: name, TTL: 905, Target: []byte("ns.foreign.z"), IP: []byte{198, 51, 100, 53}, Loc: x})
		case 0:
			out = append(out, dnsdata.VerifRec{Kind: '+', Dom: name, Wild: wild, TTL: 900, IP: []byte{198, 51, 100, byte(i)}, Weight: 1, Loc: x})
		case 1:
			out = append(out, dnsdata.VerifRec{Kind: '\'', Dom: name, Wild: wild, TTL: 901, Txt: []byte("foreign"), Loc: x})
		case 2:
			out = append(out, dnsdata.VerifRec{Kind: 'C', Dom: name, Wild: wild, TTL: 902, Target: []byte("elsewhere.z"), Loc: x})
		case 3:
			out = append(out, dnsdata.VerifRec{Kind: '&', Dom: name, TTL: 903, Target: []byte("ns.foreign.z"), Loc: x})
		case 4:
			out = append(out, dnsdata.VerifRec{Kind: 'Z', Dom: name, TTL: 904, Target: []byte("ns.foreign.z"), Loc: x})
		}
	}
	if n > 0 {
		// a subnet of a map that no queried name uses, covering the client's address
		// (a named map, or the unnamed map that a subnet line without a map name feeds)
		fmap := [2]byte{0, 'f'}
		if nd.Param("ecs") == 1 {
			fmap = [2]byte{0, 0}
		}
		out = append(out, dnsdata.VerifRec{Kind: '%', Lmap: fmap, IP: v4in6(10, 0, 0, 0), Ones: 104, Loc: x})
	}
	return out
}

func H04_diff2() {
	layout := nd.Param("layout")
	// the client is mapped to L1 (10.0.0.1), to L2 (11.0.0.1) or to no location (12.0.0.1)
	k := 2 * nd.Choice(2) // bound: a client mapped to L1 (10.0.0.1) or to no location (12.0.0.1)
	clientLoc := [][]byte{verifL1, verifL2, {0, 0}}[k]
	x := []byte{nd.Byte(), nd.Byte()}
	if nd.Param("text") == 1 {
		// every record goes through its data-file line and the real text parser; bound: the
		// foreign location's bytes are below 64 (one leading octal digit, see C09)
		dnsdata.VerifViaText = true
		nd.Assume(x[0] < 64)
		nd.Assume(x[1] < 64)
	}
	nd.Assume(nd.Or(x[0] != clientLoc[0], x[1] != clientLoc[1]))
	nd.Assume(nd.Or(x[0] != 0, x[1] != 0))
	world := verifZoneWorld()
	withECS := nd.Param("ecs") == 1
	if withECS {
		// names below z lose their client-subnet map (only z itself keeps one): a client-subnet
		// option must then be ignored for them, whatever subnets other maps declare
		var w []dnsdata.VerifRec
		for _, r := range world {
			if !(r.Kind == '8' && r.Wild) {
				w = append(w, r)
			}
		}
		world = w
	}
	recsA := append(append([]dnsdata.VerifRec{}, world...), verifForeign(nd.Param("fa"), x)...)
	recsB := append(append([]dnsdata.VerifRec{}, world...), verifForeign(nd.Param("fb"), x)...)
	a := verifRecordsHandler(recsA, layout, CacheConfig{})
	b := verifRecordsHandler(recsB, layout, CacheConfig{})

	names := []string{"z.", "c.z.", "d.z.", "x.d.z.", "g.c.z.", "l.z.", "p.z.", "q.z.", "a.c.z.", "0.z.", "y."}
	name := names[nd.Choice(len(names))]
	qtypes := []uint16{dns.TypeA, dns.TypeTXT, dns.TypeNS, dns.TypeSOA, dns.TypeDS}
	qtype := qtypes[nd.Choice(len(qtypes))]
	var resps [2]*dns.Msg
	var ecsTail []byte
	if withECS {
		ecsTail = nd.Bytes(3)
	}
	for i, env := range []*verifEnv{a, b} {
		q := new(dns.Msg)
		q.Id = 77
		q.Question = []dns.Question{{Name: name, Qtype: qtype, Qclass: dns.ClassINET}}
		if withECS {
			// a client-subnet option inside the foreign subnet 10/8 (three solver-chosen bytes)
			o := &dns.OPT{Hdr: dns.RR_Header{Name: ".", Rrtype: dns.TypeOPT, Class: 1232}}
			o.Option = append(o.Option, &dns.EDNS0_SUBNET{Code: dns.EDNS0SUBNET, Family: 1, SourceNetmask: 32, Address: net.IPv4(10, ecsTail[0], ecsTail[1], ecsTail[2])})
			q.Extra = append(q.Extra, o)
		}
		w := &verifWriter{remote: verifClientIPs[k]}
		_, _ = env.h.ServeDNSWithRCODE(context.Background(), w, q)
		nd.Assert(len(w.written) == 1, "one-reply")
		resps[i] = w.written[0]
	}
	verifSameResponse(resps[0], resps[1], "foreign-A-vs-foreign-B")
}

package dnsserver

// C05 — a reload switches generations atomically and visibly.
//
// Every record of generation g carries the TTL 5000+g. A reloader goroutine performs a
// sequence of reloads chosen by the solver (full switch to a new path, partial reload of the
// same path, a reload that fails to open); a client goroutine sends queries whose response
// needs several look-ups (MX + additional address). The scheduler explores the interleavings
// at every storage operation.

import (
	"context"
	"errors"

	"github.com/facebookincubator/dns/dnsrocks/db"
	"github.com/facebookincubator/dns/dnsrocks/dnsdata"
	"github.com/facebookincubator/dns/dnsrocks/zzverif/nd"
	"github.com/miekg/dns"
)

//verif:include ../dnsdata/rdb/zz_verif_model.go
//verif:include ../db/zz_verif_world.go
//verif:harness H05_sched property=C05 native=no quick=layout=2,reloads=1,queries=1,sched=1,cache=0;layout=0,reloads=1,queries=2,sched=1,cache=0;layout=1,reloads=2,queries=1,sched=1,cache=0;layout=2,reloads=2,queries=2,sched=1,cache=0;layout=0,reloads=1,queries=2,sched=1,cache=1;layout=2,reloads=1,queries=2,sched=1,cache=1 thorough=layout=2,reloads=1,queries=1,sched=2,cache=0;layout=0,reloads=2,queries=2,sched=2,cache=0;layout=1,reloads=2,queries=2,sched=2,cache=0;layout=2,reloads=3,queries=2,sched=1,cache=0;layout=1,reloads=2,queries=2,sched=1,cache=1

// verifGenBase: generation g is marked by the TTL base+g on every record; the base is chosen by
// the solver, so every generation judgement below is a solver query over the TTLs that went
// through the real encoders, readers and the response cache
var verifGenBase uint32 = 5000

// verifMiniWorld: a zone with an MX whose target has an address (a response that needs several
// independent look-ups), without maps.
func verifMiniWorld() []dnsdata.VerifRec {
	return []dnsdata.VerifRec{
		{Kind: 'Z', Dom: []byte("z"), Target: []byte("ns.z")},
		{Kind: '&', Dom: []byte("z"), Target: []byte("ns.z"), IP: []byte{192, 0, 2, 1}},
		{Kind: '@', Dom: []byte("m.z"), Target: []byte("mx.z"), Dist: 10, IP: []byte{192, 0, 2, 25}},
		// a name with two addresses: its answer is a weighted selection
		{Kind: '+', Dom: []byte("w.z"), IP: []byte{192, 0, 2, 31}, Weight: 1},
		{Kind: '+', Dom: []byte("w.z"), IP: []byte{192, 0, 2, 32}, Weight: 1},
	}
}

func verifGenRecords(gen int) []dnsdata.VerifRec {
	recs := verifMiniWorld()
	for i := range recs {
		recs[i].TTL = verifGenBase + uint32(gen)
	}
	return recs
}

var (
	verifPathGen   map[string]int // generation currently on disk at a path
	verifInstalled int            // generation the server was last told (successfully) to serve
	verifLayout    int
	verifStarted   int  // queries started so far
	verifInflight  bool // a query is between its first and last step
	verifPartialBegun  int
	verifPartialActive bool
	errVerifNoDB   = errors.New("verif: no database at this path")
)

func verifOpenGen(path string) (db.DBI, error) {
	gen, ok := verifPathGen[path]
	if !ok {
		return nil, errVerifNoDB
	}
	d, err := db.VerifBuildStore(verifGenRecords(gen), verifLayout)
	if err != nil {
		return nil, err
	}
	db.VerifSetRdbPath(d, path)
	return d, nil
}

// verifResponseGens returns the generations of all records of a response.
func verifResponseGens(m *dns.Msg) []int {
	var gens []int
	for _, sec := range [][]dns.RR{m.Answer, m.Ns, m.Extra} {
		for _, rr := range sec {
			if _, ok := rr.(*dns.OPT); ok {
				continue
			}
			gens = append(gens, int(rr.Header().Ttl-verifGenBase))
		}
	}
	return gens
}

func H05_sched() {
	verifLayout = nd.Param("layout")
	reloads, queries := nd.Param("reloads"), nd.Param("queries")
	verifGenBase = nd.Uint32()
	nd.Assume(verifGenBase >= 1 && verifGenBase <= 1<<30)
	verifPathGen = map[string]int{"/db/gen0": 0}
	verifInstalled = 0
	verifStarted, verifInflight = 0, false
	verifPartialBegun, verifPartialActive = 0, false
	db.VerifOpen = verifOpenGen
	first, err := verifOpenGen("/db/gen0")
	nd.Assert(err == nil, "initial-open")
	cache := CacheConfig{}
	if nd.Param("cache") == 1 {
		cache = CacheConfig{Enabled: true, LRUSize: 4} // responses may come from the response cache
	}
	env := verifNewHandler(first, cache)
	env.h.dbConfig.ReloadTimeout = 24 * 3600e9 // the timeout does not expire in this harness (C06 owns timeouts)
	if b := nd.Param("sched"); b > 0 {
		nd.SchedExplore(b)
	}
	done := make(chan struct{}, 2)

	// reloader
	served := "/db/gen0" // the path of the last successful switch, tracked by the harness itself
	env.h.dbConfig.Path = served
	go func() {
		nextGen := 1
		for i := 0; i < reloads; i++ {
			switch nd.Choice(3) {
			case 0: // full reload: a new generation at a new path
				path := "/db/gen" + string(rune('0'+nextGen))
				verifPathGen[path] = nextGen
				if env.h.Reload(*NewFullReloadSignal(path)) == nil {
					verifInstalled = nextGen
					served = path
				}
				nextGen++
			case 1: // partial reload: the path last switched to (successfully) now holds a newer generation
				cur := served
				verifPathGen[cur] = nextGen
				if m := db.VerifRocksModel(db.VerifDBI(env.h.dnsdb)); m != nil {
					// RocksDB: the primary advanced; the secondary catches up on reload
					snap, err := db.VerifBuildSnapshot(verifGenRecords(nextGen), verifLayout == 2)
					nd.Assert(err == nil, "snapshot")
					m.Primary = db.VerifPrimaryOf(snap)
				}
				s0, f0 := verifStarted, verifInflight
				verifPartialBegun++
				verifPartialActive = true
				rerr := env.h.Reload(*NewPartialReloadSignal())
				verifPartialActive = false
				nd.Assert(rerr == nil, "partial-reload-of-the-served-path-succeeds")
				// recorded finding: an in-place catch-up is not atomic with respect to a query in flight
				nd.Known("C05-partial-reload-not-atomic", f0 || verifStarted != s0)
				if rerr == nil {
					verifInstalled = nextGen
				}
				nextGen++
			case 2: // failing reload: nothing at that path
				before := verifInstalled
				err := env.h.Reload(*NewFullReloadSignal("/db/missing"))
				nd.Assert(err != nil, "missing-path-fails")
				nd.Assert(verifInstalled == before, "failed-reload-installs-nothing")
			}
		}
		done <- struct{}{}
	}()

	// client
	go func() {
		last := -1
		for i := 0; i < queries; i++ {
			q := new(dns.Msg)
			q.Id = uint16(i)
			q.Question = []dns.Question{{Name: "m.z.", Qtype: dns.TypeMX, Qclass: dns.ClassINET}}
			w := &verifWriter{remote: verifClientIPs[2]}
			nd.Yield() // between two queries of the client anything may happen (a whole reload, for instance)
			atStart := verifInstalled
			verifStarted++
			verifInflight = true
			pb0, pa0 := verifPartialBegun, verifPartialActive
			_, _ = env.h.ServeDNSWithRCODE(context.Background(), w, q)
			verifInflight = false
			atEnd := verifInstalled
			nd.Known("C05-partial-reload-not-atomic", pa0 || verifPartialBegun != pb0)
			nd.Assert(len(w.written) == 1, "one-reply")
			gens := verifResponseGens(w.written[0])
			nd.Assert(len(gens) >= 2, "answer-and-additional-present")
			for _, g := range gens {
				nd.Assert(g == gens[0], "response-from-a-single-generation")
				nd.Assert(g >= atStart, "query-started-after-reload-sees-new-generation")
				nd.Assert(g <= atEnd+1, "no-generation-from-the-future")
				nd.Assert(g >= last, "generations-never-go-backwards-for-a-client")
			}
			last = gens[0]
		}
		done <- struct{}{}
	}()
	<-done
	<-done
}

package dnsserver

// C12 — the response cache is invisible (sequential part): two handlers over the same store,
// one with the LRU cache (size 1 or 2, so eviction happens) and one without, are fed the same
// history of queries under a stub clock that may jump past the 1000 s expiry; every response
// of the cached server equals the uncached one up to the letter case of owner names.

import (
	"context"
	"strings"
	"time"

	"github.com/facebookincubator/dns/dnsrocks/dnsdata"
	"github.com/facebookincubator/dns/dnsrocks/zzverif/nd"
	"github.com/miekg/dns"
)

//verif:include ../dnsdata/rdb/zz_verif_model.go
//verif:include ../db/zz_verif_world.go
//verif:harness H12_seq property=C12 native=no quick=h=2,lru=1,layout=2,names=3,amb=0,cls=1;h=2,lru=2,layout=0,names=2,amb=0,cls=0;h=3,lru=2,layout=1,names=1,amb=0,cls=0;h=2,lru=2,layout=2,names=1,amb=1,cls=0 thorough=h=2,lru=1,layout=1,names=5,amb=0,cls=1;h=3,lru=2,layout=2,names=1,amb=0,cls=0;h=3,lru=1,layout=0,names=1,amb=0,cls=1
//verif:subst H12_seq time.Now github.com/facebookincubator/dns/dnsrocks/dnsserver.verifNow

var verifClockSec int64 = 1_700_000_000

func verifNow() time.Time { return time.Unix(verifClockSec, 0) }

func verifSameRRs(a, b []dns.RR, tag string) {
	nd.Assert(len(a) == len(b), tag+":same-record-count")
	for i := range a {
		if _, isOpt := a[i].(*dns.OPT); isOpt {
			_, bOpt := b[i].(*dns.OPT)
			nd.Assert(bOpt, tag+":opt-position")
			continue
		}
		nd.Assert(dns.IsDuplicate(a[i], b[i]), tag+":same-name-type-class-rdata")
		nd.Assert(a[i].Header().Ttl == b[i].Header().Ttl, tag+":same-ttl")
	}
}

func verifSameResponse(a, b *dns.Msg, tag string) {
	nd.Assert(a.Rcode == b.Rcode, tag+":rcode")
	nd.Assert(a.Authoritative == b.Authoritative && a.Truncated == b.Truncated && a.Response == b.Response, tag+":flags")
	nd.Assert(a.Id == b.Id && a.Opcode == b.Opcode && a.RecursionDesired == b.RecursionDesired && a.CheckingDisabled == b.CheckingDisabled, tag+":header-echo")
	nd.Assert(len(a.Question) == len(b.Question), tag+":question-count")
	for i := range a.Question {
		nd.Assert(a.Question[i] == b.Question[i], tag+":question")
	}
	verifSameRRs(a.Answer, b.Answer, tag+":answer")
	verifSameRRs(a.Ns, b.Ns, tag+":authority")
	verifSameRRs(a.Extra, b.Extra, tag+":additional")
	ao, bo := a.IsEdns0(), b.IsEdns0()
	nd.Assert((ao == nil) == (bo == nil), tag+":opt-presence")
	if ao != nil {
		nd.Assert(len(ao.Option) == len(bo.Option), tag+":option-count")
		for i := range ao.Option {
			ea, ok1 := ao.Option[i].(*dns.EDNS0_SUBNET)
			eb, ok2 := bo.Option[i].(*dns.EDNS0_SUBNET)
			nd.Assert(ok1 == ok2, tag+":option-kind")
			if ok1 && ok2 {
				nd.Assert(ea.Family == eb.Family && ea.SourceNetmask == eb.SourceNetmask && ea.SourceScope == eb.SourceScope && ea.Address.Equal(eb.Address), tag+":ecs-equal")
			}
		}
	}
}

var verifC12Names = []string{"p.z.", "d.z.", "c.z.", "y.", "q.z."} // d.z. is a delegation: its referral carries the class of the question

//verif:harness H04_cache property=C04 native=no quick=h=2,lru=2,layout=2,names=1,amb=1,cls=0 thorough=h=2,lru=2,layout=0,names=1,amb=1,cls=0

// H04_cache: C04 with the response cache in the way: two clients of different locations (whose
// ids read alike without padding) ask the same name; each must get its own location's records.
// Same run as H12_seq with amb=1, registered for C04.
func H04_cache() { H12_seq() }

func H12_seq() {
	h, layout := nd.Param("h"), nd.Param("layout")
	verifClockSec = 1_700_000_000
	cached := verifWorldHandler(0, layout, CacheConfig{Enabled: true, LRUSize: nd.Param("lru")})
	plain := verifWorldHandler(0, layout, CacheConfig{})
	amb := nd.Param("amb") == 1
	if amb {
		// two locations whose ids read alike when printed without padding: (1,23) and (12,3)
		la, lb := []byte{1, 23}, []byte{12, 3}
		recs := []dnsdata.VerifRec{
			{Kind: 'Z', Dom: []byte("z"), TTL: 300, Target: []byte("ns.z")},
			{Kind: '&', Dom: []byte("z"), TTL: 300, Target: []byte("ns.z"), IP: []byte{192, 0, 2, 1}},
			{Kind: 'M', Dom: []byte("z"), Lmap: verifMapM},
			{Kind: 'M', Dom: []byte("z"), Wild: true, Lmap: verifMapM},
			{Kind: '%', Lmap: verifMapM, IP: v4in6(10, 0, 0, 0), Ones: 104, Loc: la},
			{Kind: '%', Lmap: verifMapM, IP: v4in6(11, 0, 0, 0), Ones: 104, Loc: lb},
			{Kind: '\'', Dom: []byte("p.z"), TTL: 60, Txt: []byte("for-1-23"), Loc: la},
			{Kind: '\'', Dom: []byte("p.z"), TTL: 60, Txt: []byte("for-12-3"), Loc: lb},
		}
		cached = verifRecordsHandler(recs, layout, CacheConfig{Enabled: true, LRUSize: nd.Param("lru")})
		plain = verifRecordsHandler(recs, layout, CacheConfig{})
	}
	for step := 0; step < h; step++ {
		// the clock advances by a solver-chosen number of seconds (0 .. 65535: it may stand still,
		// approach the expiry of a cached response or pass it)
		verifClockSec += int64(nd.Uint16())
		name := verifC12Names[nd.Choice(nd.Param("names"))]
		if nd.Bool() {
			name = strings.ToUpper(name)
		}
		qtype := []uint16{dns.TypeA, dns.TypeTXT}[nd.Choice(2)]
		k := nd.Choice(2)
		remote := verifClientIPs[2*k] // a client mapped to L1 or an unmapped one
		if amb {
			remote = verifClientIPs[k] // 10.0.0.1 or 11.0.0.1: the two look-alike locations
		}
		qclass := uint16(dns.ClassINET)
		if nd.Param("cls") == 1 {
			qclass = []uint16{dns.ClassINET, dns.ClassCHAOS}[nd.Choice(2)] // the class is part of what was asked
		}
		id := nd.Uint16()
		rd := nd.Bool() // RD and CD bits differ from query to query
		build := func() *dns.Msg {
			m := new(dns.Msg)
			m.Id = id
			m.RecursionDesired = rd
			m.CheckingDisabled = !rd
			m.Question = []dns.Question{{Name: name, Qtype: qtype, Qclass: qclass}}
			return m
		}
		q1, q2 := build(), build()
		if nd.Bool() {
			for _, m := range []*dns.Msg{q1, q2} {
				o := &dns.OPT{Hdr: dns.RR_Header{Name: ".", Rrtype: dns.TypeOPT, Class: 1232}}
				o.Option = append(o.Option, &dns.EDNS0_SUBNET{Code: dns.EDNS0SUBNET, Family: 1, SourceNetmask: 24, Address: []byte{0, 0, 0, 0, 0, 0, 0, 0, 0, 0, 0xff, 0xff, 20, 1, 2, 0}})
				m.Extra = append(m.Extra, o)
			}
		}
		w1, w2 := &verifWriter{remote: remote}, &verifWriter{remote: remote}
		_, _ = cached.h.ServeDNSWithRCODE(context.Background(), w1, q1)
		_, _ = plain.h.ServeDNSWithRCODE(context.Background(), w2, q2)
		nd.Assert(len(w1.written) == len(w2.written), "same-number-of-replies")
		if len(w1.written) == 1 && len(w2.written) == 1 {
			verifSameResponse(w1.written[0], w2.written[0], "cached-vs-uncached")
		}
	}
}
